//! Miri leg of C14. One fixed small scenario per argv[1]; Miri's seeded
//! scheduler (-Zmiri-many-seeds / -Zmiri-preemption-rate) owns every basic
//! block, every std::sync primitive and every atomic, and reports data races
//! by happens-before analysis. The workload is chosen by argv, never by env.
//!
//! Scenario: main builds configurations A and B sequentially (reference
//! outcomes, computed first, on one thread). Then thread 1 builds A twice,
//! thread 2 builds B twice and thread 3 renders SVG + terminal text from a
//! shared Arc<QRCode> of A, all concurrently; a fourth thread (scenarios >= 4)
//! panics mid-build (forced Numeric on a non-digit input) while the others
//! run. Every concurrent outcome must equal the sequential one.

use std::sync::Arc;

use fast_qr::convert::svg::SvgBuilder;
use fast_qr::convert::{Builder, Shape};
use fast_qr::{Mask, Mode, QRBuilder, QRCode, Version, ECL};

fn digest(qr: &QRCode) -> u64 {
    let mut h: u64 = 0xcbf29ce484222325;
    for m in qr.data.iter().take(qr.size * qr.size + 64) {
        h = (h ^ m.0 as u64).wrapping_mul(0x100000001b3);
    }
    for f in [
        qr.size as u64,
        qr.version.map(|v| v as u64).unwrap_or(99),
        qr.ecl.map(|v| v as u64).unwrap_or(99),
        qr.mask.map(|v| v as u64).unwrap_or(99),
        qr.mode.map(|v| v as u64).unwrap_or(99),
    ] {
        h = (h ^ f).wrapping_mul(0x100000001b3);
    }
    h
}

fn shash(s: &str) -> u64 {
    let mut h: u64 = 0xcbf29ce484222325;
    for b in s.bytes() {
        h = (h ^ b as u64).wrapping_mul(0x100000001b3);
    }
    h
}

fn cfg(which: u8) -> QRBuilder {
    match which {
        0 => QRBuilder::new("A1"),
        1 => {
            let mut b = QRBuilder::new("0123456789");
            b.ecl(ECL::H);
            b
        }
        2 => {
            let mut b = QRBuilder::new("HELLO WORLD");
            b.ecl(ECL::L).mask(Mask::Diamonds);
            b
        }
        3 => {
            let mut b = QRBuilder::new(vec![0xECu8, 0x11, 0xEC]);
            b.mode(Mode::Byte).version(Version::V02).ecl(ECL::M);
            b
        }
        _ => {
            let mut b = QRBuilder::new("https://example.com/miri");
            b.ecl(ECL::Q);
            b
        }
    }
}

fn main() {
    let scenario: u8 = std::env::args().nth(1).and_then(|s| s.parse().ok()).unwrap_or(0);
    let (a, b) = match scenario % 4 {
        0 => (0u8, 1u8),
        1 => (1, 2),
        2 => (2, 3),
        _ => (0, 3),
    };
    let with_panic = scenario >= 4;

    // sequential reference, one thread
    let qa = cfg(a).build().ok().expect("A builds");
    let da = digest(&qa);
    let db = digest(&cfg(b).build().ok().expect("B builds"));
    let mut svg_b = SvgBuilder::default();
    svg_b.margin(1).shape(Shape::Circle);
    let ref_svg = shash(&svg_b.to_str(&qa));
    let ref_term = shash(&qa.to_str());

    let shared_qr = Arc::new(qa);
    let shared_builder = Arc::new(cfg(a));

    let sb = shared_builder.clone();
    let t1 = std::thread::spawn(move || {
        let x = digest(&sb.build().ok().expect("A builds on t1"));
        let y = digest(&cfg(a).build().ok().expect("A builds on t1 (fresh)"));
        (x, y)
    });
    let sb2 = shared_builder.clone();
    let t2 = std::thread::spawn(move || {
        let x = digest(&cfg(b).build().ok().expect("B builds on t2"));
        let y = digest(&sb2.build().ok().expect("A builds on t2 (shared builder)"));
        (x, y)
    });
    let q3 = shared_qr.clone();
    let t3 = std::thread::spawn(move || {
        let mut sb = SvgBuilder::default();
        sb.margin(1).shape(Shape::Circle);
        (shash(&sb.to_str(&q3)), shash(&q3.to_str()))
    });
    let t4 = if with_panic {
        Some(std::thread::spawn(|| {
            let mut bad = QRBuilder::new("12x45");
            bad.mode(Mode::Numeric);
            let _ = bad.build();
        }))
    } else {
        None
    };

    let (a1, a1f) = t1.join().expect("t1");
    let (b2, a2) = t2.join().expect("t2");
    let (svg3, term3) = t3.join().expect("t3");
    if let Some(t) = t4 {
        assert!(t.join().is_err(), "forced Numeric on a foreign input is documented to panic");
    }
    // after the concurrent phase (and after a caller died mid-build): still the same
    let a_after = digest(&shared_builder.build().ok().expect("A builds after"));

    assert_eq!(a1, da, "C14: concurrent build of A through a shared builder differs from the sequential build");
    assert_eq!(a1f, da, "C14: concurrent build of A (fresh builder) differs from the sequential build");
    assert_eq!(b2, db, "C14: concurrent build of B differs from the sequential build");
    assert_eq!(a2, da, "C14: concurrent build of A on a second thread differs from the sequential build");
    assert_eq!(svg3, ref_svg, "C14: concurrent SVG rendering differs from the sequential rendering");
    assert_eq!(term3, ref_term, "C14: concurrent terminal rendering differs from the sequential rendering");
    assert_eq!(a_after, da, "C14: build after the concurrent phase differs from the first build");
    assert_eq!(digest(&shared_qr), da, "C14: rendering modified the shared QR code");
    println!("miri-c14 scenario {} ok", scenario);
}
