//! Serializable descriptions of everything a run does through the public API
//! of `fast_qr`, the functions that perform those calls on the real crate, and
//! the reference models (the "final option values") used as oracle keys.

use std::cell::Cell;

use fast_qr::convert::image::ImageBuilder;
use fast_qr::convert::svg::SvgBuilder;
use fast_qr::convert::{Builder, ImageBackgroundShape, Shape};
use fast_qr::qr::QRCodeError;
use fast_qr::{Mask, Mode, Module, ModuleType, QRBuilder, QRCode, Version, ECL};
use serde::{Deserialize, Serialize};

use crate::rng::{digest128, hex128};

// ---------------------------------------------------------------------------
// hex (de)serialisation of byte strings, so replay files stay readable
// ---------------------------------------------------------------------------

pub mod hexbytes {
    use serde::{Deserialize, Deserializer, Serializer};

    pub fn to_hex(b: &[u8]) -> String {
        let mut s = String::with_capacity(b.len() * 2);
        for x in b {
            s.push_str(&format!("{:02x}", x));
        }
        s
    }

    pub fn from_hex(s: &str) -> Result<Vec<u8>, String> {
        if s.len() % 2 != 0 {
            return Err("odd hex length".into());
        }
        (0..s.len())
            .step_by(2)
            .map(|i| u8::from_str_radix(&s[i..i + 2], 16).map_err(|e| e.to_string()))
            .collect()
    }

    pub fn serialize<S: Serializer>(b: &Vec<u8>, s: S) -> Result<S::Ok, S::Error> {
        s.serialize_str(&to_hex(b))
    }

    pub fn deserialize<'de, D: Deserializer<'de>>(d: D) -> Result<Vec<u8>, D::Error> {
        let s = String::deserialize(d)?;
        from_hex(&s).map_err(serde::de::Error::custom)
    }
}

// ---------------------------------------------------------------------------
// enum tables
// ---------------------------------------------------------------------------

pub const VERSIONS: [Version; 40] = [
    Version::V01,
    Version::V02,
    Version::V03,
    Version::V04,
    Version::V05,
    Version::V06,
    Version::V07,
    Version::V08,
    Version::V09,
    Version::V10,
    Version::V11,
    Version::V12,
    Version::V13,
    Version::V14,
    Version::V15,
    Version::V16,
    Version::V17,
    Version::V18,
    Version::V19,
    Version::V20,
    Version::V21,
    Version::V22,
    Version::V23,
    Version::V24,
    Version::V25,
    Version::V26,
    Version::V27,
    Version::V28,
    Version::V29,
    Version::V30,
    Version::V31,
    Version::V32,
    Version::V33,
    Version::V34,
    Version::V35,
    Version::V36,
    Version::V37,
    Version::V38,
    Version::V39,
    Version::V40,
];

pub const MASKS: [Mask; 8] = [
    Mask::Checkerboard,
    Mask::HorizontalLines,
    Mask::VerticalLines,
    Mask::DiagonalLines,
    Mask::LargeCheckerboard,
    Mask::Fields,
    Mask::Diamonds,
    Mask::Meadow,
];

pub const ECLS: [ECL; 4] = [ECL::L, ECL::M, ECL::Q, ECL::H];
pub const MODES: [Mode; 3] = [Mode::Numeric, Mode::Alphanumeric, Mode::Byte];

/// version number 1..=40
pub fn version_of(v: u8) -> Version {
    VERSIONS[(v.clamp(1, 40) - 1) as usize]
}
pub fn mask_of(m: u8) -> Mask {
    MASKS[(m % 8) as usize]
}
pub fn ecl_of(e: u8) -> ECL {
    ECLS[(e % 4) as usize]
}
pub fn mode_of(m: u8) -> Mode {
    MODES[(m % 3) as usize]
}

// ---------------------------------------------------------------------------
// QR builder: setter calls, model, real calls
// ---------------------------------------------------------------------------

#[derive(Clone, Debug, PartialEq, Eq, Serialize, Deserialize)]
pub enum BSetter {
    Mode(u8),
    Ecl(u8),
    Version(u8),
    Mask(u8),
}

/// The reference model of a `QRBuilder`: its input and the *final* value of
/// every option (last writer wins). Also used directly as "a configuration".
#[derive(Clone, Debug, PartialEq, Eq, Serialize, Deserialize, Default)]
pub struct QrCfg {
    #[serde(with = "hexbytes")]
    pub input: Vec<u8>,
    pub mode: Option<u8>,
    pub ecl: Option<u8>,
    pub version: Option<u8>,
    pub mask: Option<u8>,
}

impl QrCfg {
    pub fn new(input: Vec<u8>) -> Self {
        QrCfg {
            input,
            ..Default::default()
        }
    }

    pub fn apply(&mut self, s: &BSetter) {
        match *s {
            BSetter::Mode(v) => self.mode = Some(v % 3),
            BSetter::Ecl(v) => self.ecl = Some(v % 4),
            BSetter::Version(v) => self.version = Some(v.clamp(1, 40)),
            BSetter::Mask(v) => self.mask = Some(v % 8),
        }
    }

    pub fn key(&self) -> String {
        let f = |o: Option<u8>| o.map(|v| v.to_string()).unwrap_or_else(|| "-".into());
        format!(
            "B|{}:{}|m{}|e{}|v{}|k{}",
            hex128(digest128(&[&self.input])),
            self.input.len(),
            f(self.mode),
            f(self.ecl),
            f(self.version),
            f(self.mask)
        )
    }

    /// Setter calls (each once, canonical order) that produce this configuration.
    pub fn setters(&self) -> Vec<BSetter> {
        let mut v = Vec::new();
        if let Some(x) = self.mode {
            v.push(BSetter::Mode(x));
        }
        if let Some(x) = self.ecl {
            v.push(BSetter::Ecl(x));
        }
        if let Some(x) = self.version {
            v.push(BSetter::Version(x));
        }
        if let Some(x) = self.mask {
            v.push(BSetter::Mask(x));
        }
        v
    }

    /// A brand-new real builder with each setter called once.
    pub fn fresh_builder(&self) -> QRBuilder {
        let mut b = QRBuilder::new(self.input.clone());
        for s in self.setters() {
            apply_bsetter(&mut b, &s);
        }
        b
    }
}

pub fn apply_bsetter(b: &mut QRBuilder, s: &BSetter) {
    match *s {
        BSetter::Mode(v) => {
            b.mode(mode_of(v));
        }
        BSetter::Ecl(v) => {
            b.ecl(ecl_of(v));
        }
        BSetter::Version(v) => {
            b.version(version_of(v));
        }
        BSetter::Mask(v) => {
            b.mask(mask_of(v));
        }
    }
}

// ---------------------------------------------------------------------------
// Outcomes
// ---------------------------------------------------------------------------

#[derive(Clone, Debug, PartialEq, Eq, Serialize, Deserialize)]
pub enum Outcome {
    /// digest of everything observable in the result
    Ok(String),
    ErrEncodedData,
    ErrSpecifiedVersion,
    /// Err from a renderer, with its Debug text
    Err(String),
    /// a panic raised by the crate itself (not injected), with its message
    Panic(String),
    /// the operation was killed by an injected fault
    Died(String),
    /// operand slot empty: nothing was called
    Skipped,
}

impl Outcome {
    pub fn is_died(&self) -> bool {
        matches!(self, Outcome::Died(_))
    }
    pub fn short(&self) -> String {
        match self {
            Outcome::Ok(d) => format!("Ok({})", crate::rng::head(d, 12)),
            Outcome::Panic(m) => format!("Panic({})", crate::rng::head(m, 60)),
            Outcome::Err(m) => format!("Err({})", crate::rng::head(m, 60)),
            Outcome::Died(m) => format!("Died({})", m),
            o => format!("{:?}", o),
        }
    }
}

/// Everything observable in a `QRCode`: all 31 329 backing bytes (value and
/// type bits, including the tail beyond size*size) and every field.
pub fn qr_digest(qr: &QRCode) -> [u64; 2] {
    let bytes: Vec<u8> = qr.data.iter().map(|m| m.0).collect();
    let fields = [
        qr.size as u64,
        qr.version.map(|v| v as u64).unwrap_or(u64::MAX),
        qr.ecl.map(|v| v as u64).unwrap_or(u64::MAX),
        qr.mask.map(|v| v as u64).unwrap_or(u64::MAX),
        qr.mode.map(|v| v as u64).unwrap_or(u64::MAX),
    ];
    let mut fb = Vec::with_capacity(40);
    for f in fields {
        fb.extend_from_slice(&f.to_le_bytes());
    }
    digest128(&[&bytes, &fb])
}

pub fn build_outcome(r: &Result<QRCode, QRCodeError>) -> Outcome {
    match r {
        Ok(qr) => Outcome::Ok(hex128(qr_digest(qr))),
        Err(QRCodeError::EncodedData) => Outcome::ErrEncodedData,
        Err(QRCodeError::SpecifiedVersion) => Outcome::ErrSpecifiedVersion,
    }
}

pub fn bytes_outcome(b: &[u8]) -> Outcome {
    Outcome::Ok(format!("{}:{}", hex128(digest128(&[b])), b.len()))
}

/// Text of a caught panic payload.
pub fn panic_message(p: &(dyn std::any::Any + Send)) -> String {
    if let Some(s) = p.downcast_ref::<String>() {
        s.clone()
    } else if let Some(s) = p.downcast_ref::<&'static str>() {
        (*s).to_string()
    } else {
        "<non-string panic payload>".to_string()
    }
}

// ---------------------------------------------------------------------------
// Renderer: setter calls, model, real calls
// ---------------------------------------------------------------------------

#[derive(Clone, Debug, PartialEq, Eq, Serialize, Deserialize)]
pub enum ColorSpec {
    Rgba([u8; 4]),
    Rgb([u8; 3]),
    Str(String),
    /// passed as `Vec<u8>` of length 3 or 4
    Bytes(Vec<u8>),
}

impl ColorSpec {
    fn to_color(&self) -> fast_qr::convert::Color {
        match self {
            ColorSpec::Rgba(c) => (*c).into(),
            ColorSpec::Rgb(c) => (*c).into(),
            ColorSpec::Str(s) => s.as_str().into(),
            ColorSpec::Bytes(v) => {
                // From<&[u8]> panics (documented) unless the length is 3 or 4
                let mut v = v.clone();
                if v.len() != 3 && v.len() != 4 {
                    v.resize(4, 0x7f);
                }
                v.into()
            }
        }
    }
}

/// 0..=5 built-in shapes; 6.. custom `Shape::Command` callbacks (see `custom_shape`).
#[derive(Clone, Copy, Debug, PartialEq, Eq, Serialize, Deserialize)]
pub struct ShapeSpec(pub u8);

pub const N_SHAPES: u8 = 10;
pub const SHAPE_PANICKY: u8 = 9;

thread_local! {
    /// Countdown for the panicking callback: None = never panics.
    pub static CB_PANIC_AT: Cell<Option<u32>> = const { Cell::new(None) };
    pub static CB_CALLS: Cell<u32> = const { Cell::new(0) };
}

fn cb_half(y: usize, x: usize, _m: Module) -> String {
    if x % 2 == 0 {
        format!("M{x},{y}h1v1h-1")
    } else {
        format!("M{x},{y}h1v.5h-1")
    }
}

fn cb_typed(y: usize, x: usize, m: Module) -> String {
    match m.module_type() {
        ModuleType::Data => format!("M{x}.1,{y}.1h.8v.8h-.8"),
        ModuleType::FinderPattern => format!("M{x},{y}h1v1h-1"),
        _ => format!("M{x}.5,{y}l.5,.5l-.5,.5l-.5,-.5z"),
    }
}

/// A user callback whose (valid) path data contains line breaks, tabs and runs of spaces.
fn cb_multiline(y: usize, x: usize, _m: Module) -> String {
    format!("M{x},{y}\n  h1  v1\th-1\r\n")
}

/// A user callback that fails at a simulator-chosen invocation (fault kind
/// `callback_panic`); when no countdown is armed it behaves like a square.
fn cb_panicky(y: usize, x: usize, _m: Module) -> String {
    let n = CB_CALLS.with(|c| {
        let n = c.get();
        c.set(n + 1);
        n
    });
    if CB_PANIC_AT.with(|c| c.get()) == Some(n) {
        std::panic::panic_any(crate::SimCrash("callback_panic"));
    }
    if n % 8 == 0 {
        // user code running inside the crate is a scheduling point too
        crate::hook_from_callback();
    }
    format!("M{x},{y}h1v1h-1")
}

impl ShapeSpec {
    pub fn to_shape(self) -> Shape {
        match self.0 % N_SHAPES {
            0 => Shape::Square,
            1 => Shape::Circle,
            2 => Shape::RoundedSquare,
            3 => Shape::Vertical,
            4 => Shape::Horizontal,
            5 => Shape::Diamond,
            6 => Shape::Command(cb_half),
            7 => Shape::Command(cb_typed),
            8 => Shape::Command(cb_multiline),
            _ => Shape::Command(cb_panicky),
        }
    }
}

pub const PNG_1X1: &str = "data:image/png;base64,iVBORw0KGgoAAAANSUhEUgAAAAEAAAABCAYAAAAfFcSJAAAADUlEQVR42mP8z8BQDwAEhQGAhKmMIQAAAABJRU5ErkJggg==";
pub const SVG_URI: &str = "data:image/svg+xml;base64,PHN2ZyB4bWxucz0iaHR0cDovL3d3dy53My5vcmcvMjAwMC9zdmciIHZpZXdCb3g9IjAgMCA0IDQiPjxyZWN0IHdpZHRoPSI0IiBoZWlnaHQ9IjQiIGZpbGw9IiNkMzMiLz48Y2lyY2xlIGN4PSIyIiBjeT0iMiIgcj0iMSIgZmlsbD0iI2ZmZiIvPjwvc3ZnPg==";

#[derive(Clone, Debug, PartialEq, Eq, Serialize, Deserialize)]
pub enum ImageSpec {
    Png,
    Svg,
    /// a real file (path private to the calling thread) that holds logo number `v % 3` whenever
    /// a render looks at it; its size and modification time never change, only its bytes do.
    /// Raster renders only: the path itself is part of the SVG text.
    File(u8),
    /// the same, named by a path *relative* to the process's working directory (which the C14
    /// processes set to a directory of their own, different from the one holding `File` logos)
    RelFile(u8),
    /// `pad` characters of filler (SVG text only; lets a run hit an exact file size)
    Filler(usize),
    /// `n` characters of filler that are 1, 2, 3 or 4 bytes long in UTF-8, mixed so that any
    /// byte offset is likely to fall inside a character (SVG text only)
    FillerUtf8(usize),
    Raw(String),
}

impl ImageSpec {
    pub fn to_string(&self) -> String {
        match self {
            ImageSpec::Png => PNG_1X1.to_string(),
            ImageSpec::Svg => SVG_URI.to_string(),
            ImageSpec::File(_) => logo_path(),
            ImageSpec::RelFile(_) => rel_logo_name(),
            ImageSpec::Filler(n) => {
                let mut s = String::with_capacity(*n);
                for i in 0..*n {
                    s.push((b'a' + (i % 23) as u8) as char);
                }
                s
            }
            ImageSpec::FillerUtf8(n) => {
                const CH: [char; 7] = ['a', '\u{e9}', '\u{540d}', '\u{1f4f7}', 'z', '\u{524d}', '\u{fc}'];
                let mut s = String::with_capacity(*n * 3);
                let mut x: u64 = 0x9E37_79B9_7F4A_7C15 ^ *n as u64;
                for _ in 0..*n {
                    x ^= x << 13;
                    x ^= x >> 7;
                    x ^= x << 17;
                    s.push(CH[(x % 7) as usize]);
                }
                s
            }
            ImageSpec::Raw(s) => s.clone(),
        }
    }
    /// Safe to hand to the raster path (usvg must be able to parse the document).
    pub fn raster_safe(&self) -> bool {
        matches!(self, ImageSpec::Png | ImageSpec::Svg | ImageSpec::File(_) | ImageSpec::RelFile(_))
    }
}

/// Three 4x4 PNG logos of equal byte length (red, green, blue): contents of a file-backed image option.
pub const LOGOS: [&[u8]; 3] = [
    &[137, 80, 78, 71, 13, 10, 26, 10, 0, 0, 0, 13, 73, 72, 68, 82, 0, 0, 0, 4, 0, 0, 0, 4, 8, 2, 0, 0, 0, 38, 147, 9, 41, 0, 0, 0, 16, 73, 68, 65, 84, 120, 218, 99, 184, 35, 34, 2, 71, 12, 196, 113, 0, 179, 67, 16, 65, 154, 33, 158, 232, 0, 0, 0, 0, 73, 69, 78, 68, 174, 66, 96, 130],
    &[137, 80, 78, 71, 13, 10, 26, 10, 0, 0, 0, 13, 73, 72, 68, 82, 0, 0, 0, 4, 0, 0, 0, 4, 8, 2, 0, 0, 0, 38, 147, 9, 41, 0, 0, 0, 16, 73, 68, 65, 84, 120, 218, 99, 16, 217, 162, 1, 71, 12, 196, 113, 0, 133, 3, 15, 1, 255, 6, 206, 61, 0, 0, 0, 0, 73, 69, 78, 68, 174, 66, 96, 130],
    &[137, 80, 78, 71, 13, 10, 26, 10, 0, 0, 0, 13, 73, 72, 68, 82, 0, 0, 0, 4, 0, 0, 0, 4, 8, 2, 0, 0, 0, 38, 147, 9, 41, 0, 0, 0, 16, 73, 68, 65, 84, 120, 218, 99, 144, 179, 121, 6, 71, 12, 196, 113, 0, 251, 195, 20, 1, 224, 210, 145, 176, 0, 0, 0, 0, 73, 69, 78, 68, 174, 66, 96, 130],
];

/// The calling thread's logo file (created on first use under /dev/shm, or the temp directory).
pub fn logo_path() -> String {
    thread_local! {
        static PATH: std::cell::RefCell<Option<String>> = const { std::cell::RefCell::new(None) };
    }
    PATH.with(|p| {
        let mut p = p.borrow_mut();
        if p.is_none() {
            static N: std::sync::atomic::AtomicU64 = std::sync::atomic::AtomicU64::new(0);
            let base = if std::path::Path::new("/dev/shm").is_dir() { "/dev/shm".to_string() } else { std::env::temp_dir().to_string_lossy().to_string() };
            let dir = format!("{}/fqv-logos-{}", base, std::process::id());
            let _ = std::fs::create_dir_all(&dir);
            let n = N.fetch_add(1, std::sync::atomic::Ordering::SeqCst);
            *p = Some(format!("{}/logo-{}.png", dir, n));
        }
        p.clone().unwrap()
    })
}

fn logo_base() -> String {
    let base = if std::path::Path::new("/dev/shm").is_dir() { "/dev/shm".to_string() } else { std::env::temp_dir().to_string_lossy().to_string() };
    format!("{}/fqv-logos-{}", base, std::process::id())
}

/// Working directory of a C14 process: relative logo names resolve here.
pub fn enter_logo_cwd() {
    let dir = format!("{}/rel", logo_base());
    let _ = std::fs::create_dir_all(&dir);
    let _ = std::env::set_current_dir(&dir);
}

/// The calling thread's relative logo name (a bare file name).
pub fn rel_logo_name() -> String {
    thread_local! {
        static NAME: std::cell::RefCell<Option<String>> = const { std::cell::RefCell::new(None) };
    }
    NAME.with(|p| {
        let mut p = p.borrow_mut();
        if p.is_none() {
            static N: std::sync::atomic::AtomicU64 = std::sync::atomic::AtomicU64::new(0);
            *p = Some(format!("rlogo-{}.png", N.fetch_add(1, std::sync::atomic::Ordering::SeqCst)));
        }
        p.clone().unwrap()
    })
}

/// Like `prepare_logo`, for the relative name (the file lives in the process's working directory).
pub fn prepare_rel_logo(v: u8) {
    let path = format!("{}/rel/{}", logo_base(), rel_logo_name());
    let _ = std::fs::create_dir_all(format!("{}/rel", logo_base()));
    let _ = std::fs::write(&path, LOGOS[(v % 3) as usize]);
    if let Ok(f) = std::fs::OpenOptions::new().write(true).open(&path) {
        let t = std::time::UNIX_EPOCH + std::time::Duration::from_secs(1_577_836_800);
        let _ = f.set_modified(t);
    }
}

/// Makes the calling thread's logo file hold logo `v`, with the same length and the same
/// modification time as ever (1 January 2020): nothing but its bytes tells versions apart.
pub fn prepare_logo(v: u8) {
    let path = logo_path();
    let _ = std::fs::write(&path, LOGOS[(v % 3) as usize]);
    if let Ok(f) = std::fs::OpenOptions::new().write(true).open(&path) {
        let t = std::time::UNIX_EPOCH + std::time::Duration::from_secs(1_577_836_800);
        let _ = f.set_modified(t);
    }
}

pub fn remove_logo_dir() {
    let base = if std::path::Path::new("/dev/shm").is_dir() { "/dev/shm".to_string() } else { std::env::temp_dir().to_string_lossy().to_string() };
    let _ = std::fs::remove_dir_all(format!("{}/fqv-logos-{}", base, std::process::id()));
}

#[derive(Clone, Debug, PartialEq, Serialize, Deserialize)]
pub enum RSetter {
    Margin(usize),
    ModuleColor(ColorSpec),
    BackgroundColor(ColorSpec),
    Shape(ShapeSpec),
    ShapeColor(ShapeSpec, ColorSpec),
    Image(ImageSpec),
    ImageBgColor(ColorSpec),
    ImageBgShape(u8),
    ImageSize(f64),
    ImageGap(f64),
    ImagePosition(f64, f64),
    /// `ImageBuilder` only
    FitWidth(u32),
    /// `ImageBuilder` only
    FitHeight(u32),
}

fn bg_shape(v: u8) -> ImageBackgroundShape {
    match v % 3 {
        0 => ImageBackgroundShape::Square,
        1 => ImageBackgroundShape::Circle,
        _ => ImageBackgroundShape::RoundedSquare,
    }
}

/// Calls the real setter on any `Builder`. Fit* are ignored here.
pub fn apply_rsetter<B: Builder>(b: &mut B, s: &RSetter) {
    match s {
        RSetter::Margin(m) => {
            b.margin(*m);
        }
        RSetter::ModuleColor(c) => {
            b.module_color(c.to_color());
        }
        RSetter::BackgroundColor(c) => {
            b.background_color(c.to_color());
        }
        RSetter::Shape(sh) => {
            b.shape(sh.to_shape());
        }
        RSetter::ShapeColor(sh, c) => {
            b.shape_color(sh.to_shape(), c.to_color());
        }
        RSetter::Image(i) => {
            b.image(i.to_string());
        }
        RSetter::ImageBgColor(c) => {
            b.image_background_color(c.to_color());
        }
        RSetter::ImageBgShape(v) => {
            b.image_background_shape(bg_shape(*v));
        }
        RSetter::ImageSize(v) => {
            b.image_size(*v);
        }
        RSetter::ImageGap(v) => {
            b.image_gap(*v);
        }
        RSetter::ImagePosition(x, y) => {
            b.image_position(*x, *y);
        }
        RSetter::FitWidth(_) | RSetter::FitHeight(_) => {}
    }
}

pub fn apply_img_setter(b: &mut ImageBuilder, s: &RSetter) {
    match s {
        RSetter::FitWidth(w) => {
            b.fit_width(*w);
        }
        RSetter::FitHeight(h) => {
            b.fit_height(*h);
        }
        other => apply_rsetter(b, other),
    }
}

pub fn svg_builder_from(setters: &[RSetter]) -> SvgBuilder {
    let mut b = SvgBuilder::default();
    for s in setters {
        apply_rsetter(&mut b, s);
    }
    b
}

pub fn img_builder_from(setters: &[RSetter]) -> ImageBuilder {
    let mut b = ImageBuilder::default();
    for s in setters {
        apply_img_setter(&mut b, s);
    }
    b
}

/// Reference model of a renderer builder: the final value of every scalar
/// option (last writer wins) and the appended shape list. Values are kept
/// exactly as passed (no canonicalisation), so equal keys imply equal calls.
#[derive(Clone, Debug, PartialEq, Serialize, Deserialize, Default)]
pub struct RenderModel {
    pub margin: Option<usize>,
    pub module_color: Option<ColorSpec>,
    pub background_color: Option<ColorSpec>,
    pub shapes: Vec<(u8, Option<ColorSpec>)>,
    pub image: Option<ImageSpec>,
    pub image_bg_color: Option<ColorSpec>,
    pub image_bg_shape: Option<u8>,
    pub image_size: Option<u64>,
    pub image_gap: Option<u64>,
    pub image_position: Option<(u64, u64)>,
    pub fit_width: Option<u32>,
    pub fit_height: Option<u32>,
}

impl RenderModel {
    /// `is_img`: Fit* only exist on `ImageBuilder`; on an SVG model they are no-ops.
    pub fn apply(&mut self, s: &RSetter, is_img: bool) {
        match s {
            RSetter::Margin(m) => self.margin = Some(*m),
            RSetter::ModuleColor(c) => self.module_color = Some(c.clone()),
            RSetter::BackgroundColor(c) => self.background_color = Some(c.clone()),
            RSetter::Shape(sh) => self.shapes.push((sh.0 % N_SHAPES, None)),
            RSetter::ShapeColor(sh, c) => self.shapes.push((sh.0 % N_SHAPES, Some(c.clone()))),
            RSetter::Image(i) => self.image = Some(i.clone()),
            RSetter::ImageBgColor(c) => self.image_bg_color = Some(c.clone()),
            RSetter::ImageBgShape(v) => self.image_bg_shape = Some(*v % 3),
            RSetter::ImageSize(v) => self.image_size = Some(v.to_bits()),
            RSetter::ImageGap(v) => self.image_gap = Some(v.to_bits()),
            RSetter::ImagePosition(x, y) => self.image_position = Some((x.to_bits(), y.to_bits())),
            RSetter::FitWidth(w) => {
                if is_img {
                    self.fit_width = Some(*w)
                }
            }
            RSetter::FitHeight(h) => {
                if is_img {
                    self.fit_height = Some(*h)
                }
            }
        }
    }

    pub fn from_setters(setters: &[RSetter], is_img: bool) -> Self {
        let mut m = RenderModel::default();
        for s in setters {
            m.apply(s, is_img);
        }
        m
    }

    /// Setter calls, in one canonical order, that reach exactly this model from a default builder.
    pub fn canonical_setters(&self) -> Vec<RSetter> {
        let mut v = Vec::new();
        if let Some(m) = self.margin {
            v.push(RSetter::Margin(m));
        }
        if let Some(c) = &self.module_color {
            v.push(RSetter::ModuleColor(c.clone()));
        }
        if let Some(c) = &self.background_color {
            v.push(RSetter::BackgroundColor(c.clone()));
        }
        for (s, c) in &self.shapes {
            match c {
                None => v.push(RSetter::Shape(ShapeSpec(*s))),
                Some(c) => v.push(RSetter::ShapeColor(ShapeSpec(*s), c.clone())),
            }
        }
        if let Some(i) = &self.image {
            v.push(RSetter::Image(i.clone()));
        }
        if let Some(c) = &self.image_bg_color {
            v.push(RSetter::ImageBgColor(c.clone()));
        }
        if let Some(s) = self.image_bg_shape {
            v.push(RSetter::ImageBgShape(s));
        }
        if let Some(b) = self.image_size {
            v.push(RSetter::ImageSize(f64::from_bits(b)));
        }
        if let Some(b) = self.image_gap {
            v.push(RSetter::ImageGap(f64::from_bits(b)));
        }
        if let Some((x, y)) = self.image_position {
            v.push(RSetter::ImagePosition(f64::from_bits(x), f64::from_bits(y)));
        }
        if let Some(w) = self.fit_width {
            v.push(RSetter::FitWidth(w));
        }
        if let Some(h) = self.fit_height {
            v.push(RSetter::FitHeight(h));
        }
        v
    }

    pub fn key(&self) -> String {
        let js = serde_json::to_string(self).expect("model serialises");
        hex128(digest128(&[js.as_bytes()]))
    }

    pub fn has_panicky_shape(&self) -> bool {
        self.shapes.iter().any(|(s, _)| *s == SHAPE_PANICKY)
    }
}
