//! Worker *processes*: every batch of runs executes in fresh child processes of
//! this same binary, so process-global state cannot leak from the driver and a
//! replay always starts from a clean process.

use std::io::Read;
use std::process::{Command, Stdio};

pub struct WorkerOut {
    pub lines: Vec<String>,
    pub stderr: String,
    /// exit code, or None if killed by a signal
    pub code: Option<i32>,
    pub signal: Option<i32>,
}

/// Spawns one child per argument vector (all at once) and waits for all of them.
pub fn run_children(argvs: &[Vec<String>]) -> Vec<WorkerOut> {
    run_children_limited(argvs, argvs.len().max(1))
}

/// Same, but never more than `max_parallel` children alive at a time. Results are in input order.
pub fn run_children_limited(argvs: &[Vec<String>], max_parallel: usize) -> Vec<WorkerOut> {
    let exe = std::env::current_exe().expect("current_exe");
    let exes: Vec<std::path::PathBuf> = argvs.iter().map(|_| exe.clone()).collect();
    run_children_exes(&exes, argvs, max_parallel)
}

/// The harness binary variants available to this run: (name, path). "facade" = built against
/// the std/core facades (sync primitives are scheduling points), "plain" = built against real std.
pub fn variants() -> Vec<(String, std::path::PathBuf)> {
    let mut v = Vec::new();
    for (name, var) in [("facade", "FQSIM_FACADE"), ("plain", "FQSIM_PLAIN")] {
        if let Ok(p) = std::env::var(var) {
            let p = std::path::PathBuf::from(p);
            if p.is_file() {
                v.push((name.to_string(), p));
            }
        }
    }
    if v.is_empty() {
        let name = if cfg!(feature = "facade") { "facade" } else { "plain" };
        v.push((name.to_string(), std::env::current_exe().expect("current_exe")));
    }
    v
}

pub fn variant_exe(name: &str) -> std::path::PathBuf {
    variants()
        .into_iter()
        .find(|(n, _)| n == name)
        .map(|(_, p)| p)
        .unwrap_or_else(|| std::env::current_exe().expect("current_exe"))
}

/// One child per argument vector, each with its own executable.
pub fn run_children_exes(exes: &[std::path::PathBuf], argvs: &[Vec<String>], max_parallel: usize) -> Vec<WorkerOut> {
    let mut results: Vec<Option<WorkerOut>> = (0..argvs.len()).map(|_| None).collect();
    let next = std::sync::atomic::AtomicUsize::new(0);
    let results_mx = std::sync::Mutex::new(&mut results);
    std::thread::scope(|s| {
        for _ in 0..max_parallel.min(argvs.len()) {
            s.spawn(|| loop {
                let i = next.fetch_add(1, std::sync::atomic::Ordering::SeqCst);
                if i >= argvs.len() {
                    break;
                }
                let out = run_one(&exes[i], &argvs[i]);
                results_mx.lock().unwrap()[i] = Some(out);
            });
        }
    });
    results.into_iter().map(|r| r.expect("worker result")).collect()
}

fn run_one(exe: &std::path::Path, argv: &[String]) -> WorkerOut {
    use std::os::unix::process::ExitStatusExt;
    let mut child = match Command::new(exe)
        .args(argv)
        .stdin(Stdio::null())
        .stdout(Stdio::piped())
        .stderr(Stdio::piped())
        .spawn()
    {
        Ok(c) => c,
        Err(e) => {
            return WorkerOut {
                lines: vec![],
                stderr: format!("spawn failed: {}", e),
                code: Some(127),
                signal: None,
            }
        }
    };
    let mut so = child.stdout.take().unwrap();
    let mut se = child.stderr.take().unwrap();
    let t = std::thread::spawn(move || {
        let mut s = String::new();
        let _ = se.read_to_string(&mut s);
        s
    });
    let mut out = String::new();
    let _ = so.read_to_string(&mut out);
    let status = child.wait().expect("wait");
    let stderr = t.join().unwrap_or_default();
    WorkerOut {
        lines: out.lines().map(|l| l.to_string()).collect(),
        stderr,
        code: status.code(),
        signal: status.signal(),
    }
}

pub fn arg_value<'a>(args: &'a [String], name: &str) -> Option<&'a str> {
    args.iter().position(|a| a == name).and_then(|i| args.get(i + 1)).map(|s| s.as_str())
}

pub fn arg_u64(args: &[String], name: &str, default: u64) -> u64 {
    arg_value(args, name).and_then(|v| v.parse().ok()).unwrap_or(default)
}

pub fn has_flag(args: &[String], name: &str) -> bool {
    args.iter().any(|a| a == name)
}
