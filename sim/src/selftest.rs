//! Validation of the machinery itself. Exit 2 on failure — a failed self-test
//! is a harness error, never a `VIOLATION`.
//!
//!   fqsim selftest determinism [--n N] [--seeds K]
//!       every run executed twice, in different processes, with different
//!       worker counts (16 / 3 / 1): per-run event-log hashes must be identical.

use std::collections::BTreeMap;

use serde_json::Value;

use crate::pool::{self, arg_u64};
use crate::report;

fn collect(kind: &str, seed: u64, n: u64, w: u64, pristine: Option<&str>, exe: &std::path::Path) -> Result<BTreeMap<u64, String>, String> {
    let per = (n + w - 1) / w;
    let argvs: Vec<Vec<String>> = (0..w)
        .map(|i| {
            let mut a = vec![
                format!("{}-worker", kind),
                "--seed".into(),
                seed.to_string(),
                "--start".into(),
                i.to_string(),
                "--stride".into(),
                w.to_string(),
                "--count".into(),
                per.to_string(),
            ];
            if let Some(p) = pristine {
                a.push("--pristine".into());
                a.push(p.to_string());
            }
            if kind == "c19" {
                // concurrent-caller runs too (indices >= 2e9)
                a.push("--conc-count".into());
                a.push(((n / 4 + w - 1) / w).to_string());
            }
            a
        })
        .collect();
    let exes: Vec<std::path::PathBuf> = argvs.iter().map(|_| exe.to_path_buf()).collect();
    let outs = pool::run_children_exes(&exes, &argvs, argvs.len());
    let mut m = BTreeMap::new();
    for o in outs {
        if o.code != Some(0) {
            return Err(format!("worker failed: {:?} {:?} {}", o.code, o.signal, o.stderr));
        }
        for l in o.lines {
            if l.starts_with("{\"ep\"") || l.starts_with("{\"run\"") {
                let v: Value = serde_json::from_str(&l).map_err(|e| e.to_string())?;
                let idx = v.get("ep").or_else(|| v.get("run")).and_then(|x| x.as_u64()).unwrap_or(u64::MAX);
                if idx < n || (idx >= crate::c19::conc::CONC_BASE && idx < crate::c19::conc::CONC_BASE + n / 4) {
                    let sig = format!(
                        "{}|{}|{}",
                        v.get("t").and_then(|x| x.as_str()).unwrap_or(""),
                        v.get("o").and_then(|x| x.as_str()).unwrap_or(""),
                        v.get("h").and_then(|x| x.as_str()).unwrap_or("")
                    );
                    m.insert(idx, sig);
                }
            } else if l.starts_with("{\"found\"") {
                return Err(format!("a worker reported a violation during the determinism self-test: {}", crate::rng::head(&l, 300)));
            }
        }
    }
    Ok(m)
}

fn determinism(args: &[String]) -> i32 {
    let n = arg_u64(args, "--n", 2000);
    let k = arg_u64(args, "--seeds", 2);
    let scratch = report::make_scratch("self");
    let pristine = match crate::c14::anchors::compute_pristine(16) {
        Ok(p) => p,
        Err(e) => {
            eprintln!("selftest: {}", e);
            return 2;
        }
    };
    let pp = scratch.join("pristine.json");
    std::fs::write(&pp, serde_json::to_string(&pristine).unwrap()).unwrap();
    let pp = pp.to_str().unwrap().to_string();
    let mut bad = 0u64;
    let mut total = 0u64;
    // C14 on every harness variant (facade / plain), C19 on the plain one
    let mut jobs: Vec<(String, String, std::path::PathBuf)> = Vec::new();
    for (vn, exe) in pool::variants() {
        jobs.push(("c14".into(), vn.clone(), exe.clone()));
    }
    jobs.push(("c19".into(), "plain".into(), pool::variant_exe("plain")));
    for s in 0..k {
        let seed = report::DEFAULT_SEED + 7919 * s;
        for (kind, vname, exe) in jobs.iter() {
            let kind = kind.as_str();
            let p = if kind == "c14" { Some(pp.as_str()) } else { None };
            let mut maps = Vec::new();
            for w in [16u64, 3, 1] {
                let nn = if w == 1 { n / 8 } else { n };
                match collect(kind, seed, nn, w, p, exe) {
                    Ok(m) => maps.push((w, m)),
                    Err(e) => {
                        eprintln!("selftest: {}", e);
                        let _ = std::fs::remove_dir_all(&scratch);
                        return 2;
                    }
                }
            }
            let (_, base) = &maps[0];
            for (w, m) in &maps[1..] {
                for (idx, sig) in m {
                    total += 1;
                    match base.get(idx) {
                        Some(b) if b == sig => {}
                        other => {
                            bad += 1;
                            if bad <= 10 {
                                eprintln!("selftest: {} seed {} run {} differs between 16 and {} workers: {:?} vs {}", kind, seed, idx, w, other, sig);
                            }
                        }
                    }
                }
            }
            println!("selftest determinism: {} ({}) seed {}: {} runs x worker counts 16/3/1 compared", kind, vname, seed, base.len());
        }
    }
    let _ = std::fs::remove_dir_all(&scratch);
    println!("selftest determinism: {} pairwise comparisons, {} mismatches", total, bad);
    if bad > 0 {
        2
    } else {
        0
    }
}

pub fn main(args: &[String]) -> i32 {
    match args.first().map(|s| s.as_str()) {
        Some("determinism") | None => determinism(args),
        _ => {
            eprintln!("usage: fqsim selftest determinism [--n N] [--seeds K]");
            2
        }
    }
}
