//! Validation of the machinery itself (determinism, reach). Exit 2 on failure, never a VIOLATION.

pub fn main(_args: &[String]) -> i32 {
    eprintln!("selftest: not built yet");
    2
}
