//! C19 — file output is all-or-error. Workload, fault-plan generation,
//! execution against the real crate under the syscall shim, and the oracle.

pub mod conc;
pub mod driver;
pub mod shim;
pub mod shrink;

use std::collections::BTreeMap;
use std::panic::{catch_unwind, AssertUnwindSafe};
use std::path::{Path, PathBuf};

use fast_qr::convert::ConvertError;
use fast_qr::QRCode;
use serde::{Deserialize, Serialize};

use crate::gen;
use crate::rng::{digest128, fold, hex128, mix, Rng};
use crate::spec::*;
use shim::{OpenFault, Plan, ShortSpec, WriteFault};

// ---------------------------------------------------------------------------
// Operation description
// ---------------------------------------------------------------------------

#[derive(Clone, Copy, Debug, PartialEq, Eq, Serialize, Deserialize)]
pub enum Kind {
    Svg,
    Png,
}

#[derive(Clone, Debug, PartialEq, Eq, Serialize, Deserialize)]
pub enum Target {
    /// a file directly in the run's private directory
    Scratch(String),
    /// path given relative to the process's current directory (which is the run directory)
    Relative(String),
    /// a file in a sub-directory of the run directory (not the current directory)
    Sub(String),
    /// real-kernel fault: parent directory does not exist
    MissingDir(String),
    /// real-kernel fault: the path names an existing directory
    IsDir,
    /// real-kernel fault: a path component is a regular file
    NotDir,
    /// real-kernel fault: file name longer than NAME_MAX
    LongName,
    /// rejected by std before any system call: interior NUL
    Nul,
    /// real-kernel fault: empty path
    Empty,
    /// real-kernel fault: create succeeds, every write fails with ENOSPC
    DevFull,
    /// the same through a link of this name (concurrent callers need distinct names)
    DevFullNamed(String),
    /// real-kernel fault: the path is a symbolic link to a directory
    SymlinkToDir,
    /// real-kernel fault: the path is a symbolic link to itself (ELOOP)
    SymlinkLoop,
    /// real-kernel fault: a path that names a directory in an unusual way (no final component,
    /// trailing slash, dot components): index into `ODD_PATHS`
    Odd(u8),
}

/// `{d}` is the run directory (which holds a sub-directory `a-directory` and a file `a-file`).
pub const ODD_PATHS: [&str; 11] = [
    ".",
    "..",
    "/",
    "{d}/..",
    "{d}/.",
    "{d}/a-directory/",
    "{d}/a-directory/.",
    "{d}/a-directory/..",
    "{d}//",
    "{d}/a-directory//",
    "./",
];

impl Target {
    pub fn class(&self) -> &'static str {
        match self {
            Target::Scratch(_) => "scratch",
            Target::Relative(_) => "relative",
            Target::Sub(_) => "subdir",
            Target::MissingDir(_) => "missing_dir",
            Target::IsDir => "is_dir",
            Target::NotDir => "not_dir",
            Target::LongName => "long_name",
            Target::Nul => "nul",
            Target::Empty => "empty",
            Target::DevFull | Target::DevFullNamed(_) => "dev_full",
            Target::Odd(_) => "odd_dir_path",
            Target::SymlinkToDir => "symlink_to_dir",
            Target::SymlinkLoop => "symlink_loop",
        }
    }
    /// The kernel itself makes creating or fully writing this target impossible.
    pub fn kernel_fault(&self) -> bool {
        !matches!(self, Target::Scratch(_) | Target::Relative(_) | Target::Sub(_))
    }
}

#[derive(Clone, Debug, PartialEq, Eq, Serialize, Deserialize)]
pub enum Pre {
    Absent,
    /// an existing file holding a strict prefix of the expected bytes
    Shorter,
    /// an existing file: expected bytes followed by this many extra bytes
    Longer(usize),
    /// an existing file already holding exactly the expected bytes
    Identical,
    /// an existing file of the same length with different content
    Garbage,
    /// like `Garbage`, and the modification time the file had before is put back (`cp -p`, a
    /// restore from backup): the file looks untouched to anything that trusts size and mtime
    GarbageKeepMtime,
    /// whatever is at the path is removed first
    Removed,
    /// an existing unrelated file of this length
    Other(usize),
    /// the path is a symbolic link to a regular file holding the expected bytes plus this many more
    SymlinkToFile(usize),
    /// the path is a symbolic link whose target does not exist (yet)
    DanglingSymlink,
    /// the path is one of two hard links to a longer file
    HardLinkTwin,
    /// a symbolic link whose target is *relative* (a bare file name next to the link); the
    /// target exists and is longer than the output, or (dangling) does not exist
    RelSymlink { dangling: bool },
}

impl Pre {
    pub fn class(&self) -> &'static str {
        match self {
            Pre::Absent => "absent",
            Pre::Shorter => "shorter",
            Pre::Longer(_) => "longer",
            Pre::Identical => "identical",
            Pre::Garbage => "garbage",
            Pre::GarbageKeepMtime => "garbage_keep_mtime",
            Pre::Removed => "removed",
            Pre::Other(_) => "other",
            Pre::SymlinkToFile(_) => "symlink_to_file",
            Pre::DanglingSymlink => "dangling_symlink",
            Pre::HardLinkTwin => "hard_link_twin",
            Pre::RelSymlink { .. } => "relative_symlink",
        }
    }
}

#[derive(Clone, Debug, PartialEq, Eq, Serialize, Deserialize)]
pub enum Pos {
    Abs(u64),
    /// per-mille of the expected length
    Permille(u32),
    LenMinus(u64),
    LenPlus(u64),
}

impl Pos {
    fn resolve(&self, len: u64) -> u64 {
        match *self {
            Pos::Abs(n) => n,
            Pos::Permille(p) => len * p as u64 / 1000,
            Pos::LenMinus(k) => len.saturating_sub(k),
            Pos::LenPlus(k) => len + k,
        }
    }
}

#[derive(Clone, Debug, PartialEq, Eq, Serialize, Deserialize)]
pub enum ChunkSpec {
    Abs(usize),
    /// ceil(len / parts)
    Parts(u32),
}

/// Fault plan with positions relative to the (not yet known) output length.
#[derive(Clone, Debug, Default, PartialEq, Eq, Serialize, Deserialize)]
pub struct PlanSpec {
    pub open: Vec<(u32, OpenFault)>,
    pub write: Vec<(u32, WriteFault)>,
    pub disk_full: Option<Pos>,
    pub chunk: Option<ChunkSpec>,
    pub close_err: Option<i32>,
    pub fsync_err: Option<i32>,
    pub meta_err: Option<i32>,
}

/// At most this many write calls are forced on one operation by a dribble plan.
const MAX_CALLS_PER_OP: usize = 1024;

impl PlanSpec {
    pub fn is_empty(&self) -> bool {
        *self == PlanSpec::default()
    }

    pub fn resolve(&self, len: usize) -> Plan {
        let chunk = self.chunk.as_ref().map(|c| {
            let c = match *c {
                ChunkSpec::Abs(n) => n.max(1),
                ChunkSpec::Parts(p) => (len + p as usize - 1) / (p.max(1) as usize),
            };
            c.max((len + MAX_CALLS_PER_OP - 1) / MAX_CALLS_PER_OP).max(1)
        });
        Plan {
            open: self.open.clone(),
            write: self.write.clone(),
            disk_full_at: self.disk_full.as_ref().map(|p| p.resolve(len as u64)),
            max_chunk: chunk,
            close_err: self.close_err,
            fsync_err: self.fsync_err,
            meta_err: self.meta_err,
            kill_at: None,
        }
    }
}

/// A file (or directory) that an earlier, unrelated or crashed writer left next to the target.
/// `name` is a template over `{path}` (the target as given), `{dir}`, `{name}`, `{stem}`, `{pid}`.
#[derive(Clone, Debug, PartialEq, Eq, Serialize, Deserialize)]
pub struct Litter {
    pub name: String,
    /// bytes beyond the expected length (the debris is longer than what will be written), or
    /// `None` for a short file
    pub longer_by: Option<usize>,
    pub is_dir: bool,
}

pub const LITTER_NAMES: [&str; 16] = [
    "{path}.tmp",
    "{path}.part",
    "{path}~",
    "{path}.bak",
    "{path}.new",
    "{path}.lock",
    "{path}.swp",
    "{path}.partial",
    "{dir}/{stem}.tmp",
    "{dir}/.{name}.tmp",
    "{dir}/.{name}.swp",
    "{dir}/.fast_qr-{pid}.tmp",
    "{dir}/.tmp",
    "{dir}/tmp",
    "{dir}/.{name}",
    "{dir}/{name}.tmp~",
];

fn is_zero_u8(v: &u8) -> bool {
    *v == 0
}

#[derive(Clone, Debug, PartialEq, Serialize, Deserialize)]
pub struct IoOp {
    pub kind: Kind,
    pub qr: QrCfg,
    pub setters: Vec<RSetter>,
    pub target: Target,
    pub pre: Pre,
    pub plan: PlanSpec,
    /// call through `fn -> Result<(), ConvertError> { b.to_file(..)?; Ok(()) }`
    pub via_convert: bool,
    /// SVG only: grow an `ImageSpec::Filler` so that the output is exactly this long
    pub pad_to: Option<usize>,
    /// real-kernel fault: RLIMIT_FSIZE (soft) during the call, SIGXFSZ ignored
    pub rlimit: Option<Pos>,
    /// debris next to the target, created before the call
    #[serde(default, skip_serializing_if = "Vec::is_empty")]
    pub litter: Vec<Litter>,
    /// fault `callback_panic`: the renderer holds a `Shape::Command` layer whose callback panics at
    /// its k-th invocation during *this* call (the caller's own code failing inside `to_file`; no
    /// verdict for this call - later calls on the thread meet what it left behind)
    #[serde(default, skip_serializing_if = "Option::is_none")]
    pub cb_panic_at: Option<u32>,
    /// the process's current directory during the call: 0 = the run directory, 1 = its
    /// sub-directory `cwd-b` (single-caller runs only; relative destinations follow it)
    #[serde(default, skip_serializing_if = "is_zero_u8")]
    pub cwd: u8,
    /// crash: the call runs in a forked child that is killed right before its k-th tracked system
    /// call; only what reached the file system survives. No verdict for this call itself - the
    /// following operations of the run meet what it left behind.
    #[serde(default, skip_serializing_if = "Option::is_none")]
    pub crash_at: Option<u32>,
}

#[derive(Clone, Debug, Serialize, Deserialize)]
pub struct IoRun {
    pub index: u64,
    pub seed: u64,
    pub class: String,
    pub ops: Vec<IoOp>,
}

// ---------------------------------------------------------------------------
// Generation
// ---------------------------------------------------------------------------

pub const OPEN_ERRNOS: [i32; 23] = [
    libc::ETXTBSY,
    libc::EBUSY,
    libc::EOVERFLOW,
    libc::ENXIO,
    libc::EPERM,
    libc::ENODEV,
    libc::ESTALE,
    libc::EWOULDBLOCK,
    libc::EFBIG,
    libc::EINVAL,
    libc::ENOENT,
    libc::EACCES,
    libc::EROFS,
    libc::EISDIR,
    libc::ENOTDIR,
    libc::ENOSPC,
    libc::EDQUOT,
    libc::EMFILE,
    libc::ENFILE,
    libc::ENAMETOOLONG,
    libc::ELOOP,
    libc::ENOMEM,
    libc::EIO,
];
/// errno values write(2) may legally fail with on a file: persistent ones and transient ones
/// (a caller that retries a transient error must still end with an exact file or an Err).
pub const WRITE_ERRNOS: [i32; 14] = [
    libc::ESTALE,
    libc::EINVAL,
    libc::ENXIO,
    libc::EROFS,
    libc::EBUSY,
    libc::ENOSPC,
    libc::EDQUOT,
    libc::EFBIG,
    libc::EIO,
    libc::EAGAIN,
    libc::ETIMEDOUT,
    libc::EPIPE,
    libc::EPERM,
    libc::ENOMEM,
];
/// Output sizes an SVG run is padded to exactly: 2^n - 1, 2^n, 2^n + 1 and a few
/// odd multiples of common buffer/chunk sizes (off-by-one territory for chunked writers).
pub fn pad_sizes() -> Vec<usize> {
    let mut v = Vec::new();
    for n in 12..=20u32 {
        let p = 1usize << n;
        v.extend_from_slice(&[p - 1, p, p + 1]);
    }
    // above a megabyte (rarely drawn: see `gen_run`)
    for p in [(1usize << 21) + 1, 3 * (1usize << 20) - 1] {
        v.push(p);
    }
    for (k, c) in [(3usize, 4096usize), (5, 4096), (3, 8192), (5, 8192), (7, 8192), (3, 1024), (5, 1024), (3, 65536)] {
        v.extend_from_slice(&[k * c - 1, k * c, k * c + 1]);
    }
    v.sort();
    v.dedup();
    v
}

const NAMES: [&str; 16] = [
    // long multi-byte names: any fixed byte offset into such a path is likely not a char boundary
    "名前名前名前名前名前名前名前名前名前名前名前名前名前名前名前名前名前名前名前名前.svg",
    "a名前名前名前名前名前名前名前名前名前名前名前名前名前名前名前名前名前名前名前名前.png",
    "ab名前名前名前名前名前名前名前名前名前名前名前名前名前名前名前名前名前名前名前名前",
    "éééééééééééééééééééééééééééééééééééééééééééééééééééééééééééé.svg",
    "x📷📷📷📷📷📷📷📷📷📷📷📷📷📷📷📷📷📷📷📷.png",
    "%41%2e%2e%2f & ; $HOME `x` 'q' \"d\" *.svg",
    "out.svg",
    "out.png",
    "QR Code (1).SVG",
    "ünïcødé-名前.png",
    "noext",
    ".hidden",
    " lead and trail ",
    "a.b.c.d",
    "UPPER.PNG",
    "x",
];

#[derive(Clone, Debug)]
struct Swarm {
    fault_free: bool,
    open_hard: bool,
    open_eintr: bool,
    write_short: bool,
    write_eintr: bool,
    write_hard: bool,
    write_zero: bool,
    disk_full: bool,
    dribble: bool,
    close_err: bool,
    fsync_err: bool,
    prestate: bool,
    real_kernel: bool,
    rlimit: bool,
    pad: bool,
    litter: bool,
    crash: bool,
    related: bool,
    p_hard: f64,
}

fn gen_swarm(rng: &mut Rng) -> Swarm {
    let fault_free = rng.chance(15, 100);
    let mut b = |on: bool| on && rng.chance(1, 2);
    let on = !fault_free;
    Swarm {
        fault_free,
        open_hard: b(on),
        open_eintr: b(on),
        write_short: b(on),
        write_eintr: b(on),
        write_hard: b(on),
        write_zero: b(on),
        disk_full: b(on),
        dribble: b(on),
        close_err: b(on),
        fsync_err: b(on),
        prestate: b(true),
        real_kernel: b(on),
        rlimit: b(on),
        pad: b(true),
        litter: b(true),
        crash: b(on),
        related: b(true),
        p_hard: *rng.pick(&[0.3, 0.5, 0.8]),
    }
}

fn gen_plan(rng: &mut Rng, sw: &Swarm) -> PlanSpec {
    let mut p = PlanSpec::default();
    if sw.fault_free {
        return p;
    }
    if sw.dribble && rng.chance(2, 5) {
        p.chunk = Some(match rng.below(3) {
            0 => ChunkSpec::Abs(*rng.pick(&[1usize, 7, 64, 1000, 4096, 8192, 65536])),
            _ => ChunkSpec::Parts(*rng.pick(&[2u32, 3, 5, 16, 100])),
        });
    }
    // how many write calls to expect (roughly) decides where faults can land
    let span: u64 = if p.chunk.is_some() { 8 } else { 2 };
    let mut open_idx = 0u32;
    if sw.open_eintr && rng.chance(1, 4) {
        for _ in 0..rng.range(1, 3) {
            p.open.push((open_idx, OpenFault::Eintr));
            open_idx += 1;
        }
    }
    if sw.write_short && rng.chance(1, 2) {
        for _ in 0..rng.range(1, 3) {
            let idx = rng.below(span + 2) as u32;
            let spec = match rng.below(4) {
                0 => ShortSpec::One,
                1 => ShortSpec::Half,
                2 => ShortSpec::AllButOne,
                _ => ShortSpec::AtMost(*rng.pick(&[100usize, 4096, 8192])),
            };
            if !p.write.iter().any(|(i, _)| *i == idx) {
                p.write.push((idx, WriteFault::Short(spec)));
            }
        }
    }
    if sw.write_eintr && rng.chance(1, 3) {
        let start = rng.below(span + 1) as u32;
        for k in 0..rng.range(1, 3) as u32 {
            if !p.write.iter().any(|(i, _)| *i == start + k) {
                p.write.push((start + k, WriteFault::Eintr));
            }
        }
    }
    if sw.close_err && rng.chance(1, 4) {
        p.close_err = Some(*rng.pick(&[libc::EIO, libc::EINTR]));
    }
    if sw.fsync_err && rng.chance(1, 4) {
        p.fsync_err = Some(*rng.pick(&[libc::EIO, libc::EINTR, libc::ENOSPC]));
    }
    // only delivered if the implementation renames/truncates at all (temp-file schemes)
    if sw.open_hard && rng.chance(1, 6) {
        p.meta_err = Some(*rng.pick(&[libc::EXDEV, libc::EACCES, libc::ENOSPC, libc::EIO, libc::EBUSY]));
    }
    if rng.prob(sw.p_hard) {
        let mut kinds = Vec::new();
        if sw.open_hard {
            kinds.push(0);
        }
        if sw.write_hard {
            kinds.push(1);
        }
        if sw.write_zero {
            kinds.push(2);
        }
        if sw.disk_full {
            kinds.push(3);
            kinds.push(3);
        }
        if !kinds.is_empty() {
            match *rng.pick(&kinds) {
                0 => {
                    p.open.push((open_idx, OpenFault::Hard(*rng.pick(&OPEN_ERRNOS))));
                    if rng.chance(1, 4) {
                        // an implementation that tries again meets a second failure
                        p.open.push((open_idx + 1, OpenFault::Hard(*rng.pick(&OPEN_ERRNOS))));
                        if rng.chance(1, 2) {
                            p.open.push((open_idx + 2, OpenFault::Hard(*rng.pick(&OPEN_ERRNOS))));
                        }
                    }
                }
                1 => {
                    let idx = free_write_idx(rng, &p, span);
                    p.write.push((idx, WriteFault::Hard(*rng.pick(&WRITE_ERRNOS))));
                    if rng.chance(1, 4) {
                        for k in 1..=rng.range(1, 2) as u32 {
                            if !p.write.iter().any(|(i, _)| *i == idx + k) {
                                p.write.push((idx + k, WriteFault::Hard(*rng.pick(&WRITE_ERRNOS))));
                            }
                        }
                    }
                }
                2 => {
                    let idx = free_write_idx(rng, &p, span);
                    p.write.push((idx, WriteFault::Zero));
                }
                _ => {
                    p.disk_full = Some(match rng.below(8) {
                        0 => Pos::Abs(0),
                        1 => Pos::Abs(1),
                        2 => Pos::LenMinus(1),
                        3 => Pos::Permille(500),
                        4 => Pos::Abs(4096),
                        5 => Pos::Permille(rng.below(1000) as u32),
                        // boundary cases where the device is *just* large enough: must be Ok
                        6 => Pos::LenPlus(0),
                        _ => Pos::LenPlus(1),
                    });
                }
            }
        }
    }
    p.write.sort_by_key(|(i, _)| *i);
    p
}

fn free_write_idx(rng: &mut Rng, p: &PlanSpec, span: u64) -> u32 {
    for _ in 0..8 {
        let idx = rng.below(span) as u32;
        if !p.write.iter().any(|(i, _)| *i == idx) {
            return idx;
        }
    }
    p.write.iter().map(|(i, _)| *i).max().unwrap_or(0) + 1
}

pub fn gen_qr_for_io(rng: &mut Rng, kind: Kind) -> QrCfg {
    // SVG bodies should sometimes be large (V40 ≈ 200 kB) so that short writes
    // recur many times; PNG rendering is slower, so it stays small more often.
    let big = match kind {
        Kind::Svg => rng.chance(1, 8),
        Kind::Png => rng.chance(1, 40),
    };
    let max_len = if big { 2900 } else { 120 };
    let class = gen::INPUT_CLASSES[rng.weighted(&[20, 20, 25, 25, 4, 3, 3, 0, 0])];
    let len = if big { rng.range(400, max_len as u64) as usize } else { gen::gen_len(rng, max_len).max(1) };
    let input = gen::gen_input_of(rng, class, len);
    let mut c = gen::gen_cfg_over(rng, input, 40, false);
    // C19 is not about building: keep forced versions large enough for the input
    // (V10-H holds 119 bytes, V40 holds everything generated here at level L..Q)
    c.version = match c.version {
        Some(_) if big => {
            c.ecl = Some(rng.below(2) as u8);
            Some(40)
        }
        Some(_) => {
            let hi = if rng.chance(1, 6) { 40 } else { 14 };
            Some(rng.range(10, hi) as u8)
        }
        None => None,
    };
    if big && c.ecl == Some(3) {
        c.ecl = Some(1);
    }
    if rng.chance(1, 30) && kind == Kind::Svg {
        c.version = Some(40);
    }
    c
}

pub fn gen_run(verif_seed: u64, index: u64) -> IoRun {
    let seed = mix(verif_seed, index);
    let mut rng = Rng::new(seed);
    let sw = gen_swarm(&mut rng);
    let n_ops = [1usize, 2, 3, 4, 5, 6][rng.weighted(&[3, 3, 3, 1, 1, 1])];
    let n_names = rng.range(1, 3) as usize;
    let names: Vec<String> = (0..n_names).map(|_| NAMES[rng.usize_below(NAMES.len())].to_string()).collect();
    let mut ops: Vec<IoOp> = Vec::new();
    for _ in 0..n_ops {
        let kind = if rng.chance(3, 5) { Kind::Svg } else { Kind::Png };
        let qr = gen_qr_for_io(&mut rng, kind);
        let is_img = kind == Kind::Png;
        let mut setters = gen::gen_rsetters(&mut rng, is_img, is_img, false);
        let target = if sw.real_kernel && rng.chance(1, 5) {
            match rng.below(11) {
                9 => Target::SymlinkToDir,
                10 => Target::SymlinkLoop,
                0 => Target::MissingDir(rng.pick(&names).clone()),
                1 => Target::IsDir,
                2 => Target::NotDir,
                3 => Target::LongName,
                4 => Target::Nul,
                5 => Target::Empty,
                6 | 7 => Target::Odd(rng.below(ODD_PATHS.len() as u64) as u8),
                _ => Target::DevFull,
            }
        } else if rng.chance(1, 6) {
            Target::Relative(rng.pick(&names).clone())
        } else if rng.chance(1, 5) {
            Target::Sub(rng.pick(&names).clone())
        } else {
            Target::Scratch(rng.pick(&names).clone())
        };
        let pre = if sw.prestate {
            match rng.weighted(&[40, 15, 25, 10, 10, 4, 6, 4, 3, 3, 4]) {
                0 => Pre::Absent,
                1 => Pre::Shorter,
                2 => Pre::Longer(*rng.pick(&[1usize, 17, 4096, 100_000])),
                3 => Pre::Identical,
                4 => Pre::Garbage,
                5 => Pre::Removed,
                6 => Pre::Other(*rng.pick(&[0usize, 1, 100, 5000, 300_000])),
                7 => Pre::SymlinkToFile(*rng.pick(&[0usize, 1, 5000])),
                8 => Pre::DanglingSymlink,
                9 => Pre::HardLinkTwin,
                _ => Pre::RelSymlink { dangling: rng.chance(1, 2) },
            }
        } else {
            Pre::Absent
        };
        if kind == Kind::Png && !sw.fault_free && rng.chance(1, 25) {
            // the raster path cannot parse a document with a quote in the image reference and
            // panics: an earlier caller that died inside the renderer
            setters.push(RSetter::Image(ImageSpec::Raw("logo \"<draft>.png".to_string())));
        }
        // very many shape layers multiply the document: keep those for small symbols
        let n_shapes = setters.iter().filter(|s| matches!(s, RSetter::Shape(_) | RSetter::ShapeColor(_, _))).count();
        let mut qr = qr;
        if n_shapes > 16 {
            qr.version = None;
            qr.input.truncate(if n_shapes > 200 { 10 } else { 40 });
            if qr.input.is_empty() {
                qr.input.push(b'7');
            }
        }
        let plan = gen_plan(&mut rng, &sw);
        let mut pad_to = None;
        if kind == Kind::Svg && sw.pad && rng.chance(3, 10) {
            let sizes = pad_sizes();
            // smaller sizes more often (cheaper), every size regularly
            let i = if rng.chance(1, 2) { rng.usize_below(sizes.len() / 2) } else { rng.usize_below(sizes.len()) };
            pad_to = Some(sizes[i]);
            setters.push(RSetter::Image(ImageSpec::Filler(0)));
        }
        if kind == Kind::Svg && pad_to.is_none() && rng.chance(1, 25) {
            // a large document full of multi-byte characters: block and chunk boundaries fall
            // inside characters
            setters.push(RSetter::Image(ImageSpec::FillerUtf8(*rng.pick(&[50_000usize, 70_000, 140_000]))));
        }
        let rlimit = if sw.rlimit && rng.chance(15, 100) && !target.kernel_fault() {
            Some(match rng.below(7) {
                0 => Pos::Abs(0),
                1 => Pos::Abs(1),
                2 => Pos::Abs(4096),
                3 => Pos::LenMinus(1),
                4 => Pos::Permille(rng.below(1000) as u32),
                5 => Pos::LenPlus(0),
                _ => Pos::LenPlus(1),
            })
        } else {
            None
        };
        let mut op = IoOp {
            kind,
            qr,
            setters,
            target,
            pre,
            plan,
            via_convert: rng.chance(1, 2),
            pad_to,
            rlimit,
            litter: Vec::new(),
            cb_panic_at: None,
            cwd: 0,
            crash_at: None,
        };
        if !sw.fault_free && !op.target.kernel_fault() && op.pad_to.is_none() && rng.chance(1, 30) {
            // the caller's custom shape fails part-way through this export
            op.setters.push(RSetter::Shape(ShapeSpec(SHAPE_PANICKY)));
            op.cb_panic_at = Some(match rng.below(3) {
                0 => rng.below(4) as u32,
                1 => rng.below(60) as u32,
                _ => rng.below(400) as u32,
            });
            op.plan = PlanSpec::default();
        }
        if matches!(op.target, Target::Relative(_)) && rng.chance(1, 3) {
            // another working directory, or (real-kernel fault) one that has been removed
            op.cwd = if sw.real_kernel && rng.chance(1, 3) { 2 } else { 1 };
        }
        // related operations: the same export again, or a close relative of an earlier one
        // (what a watch loop, a batch job or a retry does) - where memos and caches live
        if sw.related && !ops.is_empty() && rng.chance(2, 5) {
            // mostly the operation right before (caches of "the last export" look at that one)
            let base = if rng.chance(2, 3) { ops[ops.len() - 1].clone() } else { ops[rng.usize_below(ops.len())].clone() };
            let fresh = op.clone();
            op = base;
            op.crash_at = None;
            if op.cb_panic_at.take().is_some() {
                // the same renderer without the failing callback
                op.setters.retain(|s| !matches!(s, RSetter::Shape(ShapeSpec(SHAPE_PANICKY))));
            }
            op.plan = fresh.plan.clone();
            op.rlimit = None;
            op.pre = match rng.weighted(&[30, 18, 15, 10, 10, 10, 12]) {
                6 => Pre::GarbageKeepMtime,
                0 => Pre::Absent,
                1 => Pre::Garbage,
                2 => Pre::Longer(*rng.pick(&[1usize, 4096])),
                3 => Pre::Removed,
                4 => Pre::Other(*rng.pick(&[0usize, 100, 5000])),
                _ => Pre::Shorter,
            };
            match rng.below(8) {
                // exactly the same export again
                0 | 1 => {}
                // one option differs
                2 | 3 => {
                    let is_img = op.kind == Kind::Png;
                    let extra = if is_img {
                        let used: Vec<u32> = op.setters.iter().filter_map(|s| match s {
                            RSetter::FitWidth(v) | RSetter::FitHeight(v) => Some(*v),
                            _ => None,
                        }).collect();
                        let cands: Vec<u32> = [33u32, 64, 100, 150, 200, 256].iter().copied().filter(|v| !used.contains(v)).collect();
                        match rng.below(4) {
                            0 | 1 => RSetter::FitWidth(*rng.pick(&cands)),
                            2 => RSetter::FitHeight(*rng.pick(&cands)),
                            _ => RSetter::Margin(rng.below(6) as usize),
                        }
                    } else {
                        RSetter::Margin(rng.below(6) as usize)
                    };
                    if op.pad_to.is_some() {
                        // keep the filler last so that padding still works
                        let at = op.setters.len().saturating_sub(1);
                        op.setters.insert(at, extra);
                    } else {
                        op.setters.push(extra);
                    }
                }
                // other options, same code
                4 => {
                    if fresh.kind == op.kind {
                        op.setters = fresh.setters.clone();
                        op.pad_to = fresh.pad_to;
                    }
                }
                // other code, same options
                5 => {
                    let many = op.setters.iter().filter(|s| matches!(s, RSetter::Shape(_) | RSetter::ShapeColor(_, _))).count() > 16;
                    if !many {
                        op.qr = fresh.qr.clone();
                    }
                }
                // the other renderer onto the same path
                6 => {
                    op.kind = fresh.kind;
                    op.setters = fresh.setters.clone();
                    op.pad_to = fresh.pad_to;
                }
                // same export, other path
                _ => op.target = fresh.target.clone(),
            }
            if matches!(op.target, Target::Relative(_)) && rng.chance(1, 2) {
                // the same relative name from another working directory is another file
                op.cwd = if op.cwd == 0 { 1 } else { 0 };
            }
        }
        if sw.litter && !op.target.kernel_fault() && rng.chance(1, 4) {
            for _ in 0..rng.range(1, 2) {
                op.litter.push(Litter {
                    name: LITTER_NAMES[rng.usize_below(LITTER_NAMES.len())].to_string(),
                    longer_by: if rng.chance(3, 4) { Some(*rng.pick(&[1usize, 1000, 70_000])) } else { None },
                    is_dir: rng.chance(1, 8),
                });
            }
        }
        // crash and restart: this call dies at its k-th system call; a later call writes (usually
        // something smaller) to the same path and must still end with an exact file or an error
        if sw.crash && !op.target.kernel_fault() && rng.chance(1, 6) {
            let mut dying = op.clone();
            dying.crash_at = Some(match rng.below(3) {
                0 => rng.below(4) as u32,
                1 => rng.below(10) as u32,
                _ => rng.below(40) as u32,
            });
            if rng.chance(1, 2) {
                dying.plan.chunk = Some(ChunkSpec::Parts(*rng.pick(&[2u32, 3, 5, 16])));
            }
            if rng.chance(1, 2) && dying.kind == Kind::Svg {
                // make the dying writer's output the larger one
                dying.pad_to = Some(*rng.pick(&[20_000usize, 70_000, 140_000]));
                if !matches!(dying.setters.last(), Some(RSetter::Image(ImageSpec::Filler(_)))) {
                    dying.setters.push(RSetter::Image(ImageSpec::Filler(0)));
                }
            }
            dying.pre = Pre::Absent;
            ops.push(dying);
            op.pre = Pre::Absent;
        }
        ops.push(op);
    }
    IoRun {
        index,
        seed,
        class: if sw.fault_free { "fault_free".into() } else { "faulty".into() },
        ops,
    }
}

// ---------------------------------------------------------------------------
// Execution + oracle
// ---------------------------------------------------------------------------

#[derive(Clone, Debug, Serialize, Deserialize, PartialEq, Eq)]
pub struct Violation {
    /// O1_panic | O2_ok_but_file_wrong | O2_ok_on_unwritable_target
    pub invariant: String,
    pub op_index: usize,
    pub kind: Kind,
    pub detail: String,
}

impl Violation {
    /// identity used for "same violation class" during minimisation and for known findings
    pub fn class(&self) -> String {
        format!("{}:{:?}", self.invariant, self.kind)
    }
}

#[derive(Clone, Debug, Serialize, Deserialize)]
pub struct OpReport {
    pub skipped: Option<String>,
    pub expected_len: usize,
    pub result: String,
    pub file: String,
    pub delivered: shim::Delivered,
    pub path_class: String,
    pub violation: Option<Violation>,
}

#[derive(Default, Clone, Debug, Serialize, Deserialize)]
pub struct Stats {
    pub runs: u64,
    pub ops: u64,
    pub ops_skipped: u64,
    pub result_ok: u64,
    pub result_err: u64,
    pub result_panic: u64,
    pub counters: BTreeMap<String, u64>,
    pub tuples: std::collections::BTreeSet<String>,
    pub syscalls: u64,
    pub bytes_written: u64,
    pub samples: Vec<serde_json::Value>,
}

impl Stats {
    pub fn bump(&mut self, k: &str, n: u64) {
        if n > 0 {
            *self.counters.entry(k.to_string()).or_insert(0) += n;
        }
    }
    pub fn merge(&mut self, o: &Stats) {
        self.runs += o.runs;
        self.ops += o.ops;
        self.ops_skipped += o.ops_skipped;
        self.result_ok += o.result_ok;
        self.result_err += o.result_err;
        self.result_panic += o.result_panic;
        self.syscalls += o.syscalls;
        self.bytes_written += o.bytes_written;
        for (k, v) in &o.counters {
            *self.counters.entry(k.clone()).or_insert(0) += v;
        }
        for t in &o.tuples {
            self.tuples.insert(t.clone());
        }
        for s in &o.samples {
            if self.samples.len() < 6 {
                self.samples.push(s.clone());
            }
        }
    }
}

pub struct Ctx {
    /// private directory of this worker; each run gets a sub-directory
    pub scratch: PathBuf,
}

fn call_via_convert_svg(b: &fast_qr::convert::svg::SvgBuilder, qr: &QRCode, path: &str) -> Result<(), ConvertError> {
    b.to_file(qr, path)?;
    Ok(())
}

fn call_via_convert_png(b: &fast_qr::convert::image::ImageBuilder, qr: &QRCode, path: &str) -> Result<(), ConvertError> {
    b.to_file(qr, path)?;
    Ok(())
}

fn set_fsize_limit(limit: Option<u64>) -> Option<libc::rlimit> {
    unsafe {
        let mut old = libc::rlimit { rlim_cur: 0, rlim_max: 0 };
        if libc::getrlimit(libc::RLIMIT_FSIZE, &mut old) != 0 {
            return None;
        }
        if let Some(l) = limit {
            let new = libc::rlimit {
                rlim_cur: l.min(old.rlim_max),
                rlim_max: old.rlim_max,
            };
            if libc::setrlimit(libc::RLIMIT_FSIZE, &new) != 0 {
                return None;
            }
        }
        Some(old)
    }
}

fn restore_fsize_limit(old: libc::rlimit) {
    unsafe {
        libc::setrlimit(libc::RLIMIT_FSIZE, &old);
    }
}

/// /dev/full must be the real character device (1,7); anything else is not used.
fn dev_full_ok() -> bool {
    use std::os::unix::fs::{FileTypeExt, MetadataExt};
    match std::fs::metadata("/dev/full") {
        Ok(m) => m.file_type().is_char_device() && libc::major(m.rdev()) == 1 && libc::minor(m.rdev()) == 7,
        Err(_) => false,
    }
}

/// Runs `fqsim c19-crash <spec>` and returns its exit code (137 = killed at the planned call).
fn run_crash_child(spec: &str) -> Result<i32, &'static str> {
    let exe = std::env::current_exe().map_err(|_| "no_current_exe")?;
    let mut child = std::process::Command::new(exe)
        .arg("c19-crash")
        .arg(spec)
        .stdin(std::process::Stdio::null())
        .stdout(std::process::Stdio::null())
        .stderr(std::process::Stdio::null())
        .spawn()
        .map_err(|_| "crash_child_spawn_failed")?;
    let t0 = std::time::Instant::now();
    loop {
        match child.try_wait() {
            Ok(Some(st)) => return Ok(st.code().unwrap_or(-1)),
            Ok(None) => {
                if t0.elapsed().as_secs() >= 20 {
                    let _ = child.kill();
                    let _ = child.wait();
                    return Err("crash_child_hung");
                }
                std::thread::sleep(std::time::Duration::from_micros(300));
            }
            Err(_) => return Err("crash_child_wait_failed"),
        }
    }
}

/// `fqsim c19-crash <spec json>`: the writer that dies. Builds the QR code and the renderer as
/// the parent did, arms the crash clock and calls `to_file`; `_exit(137)` happens inside the
/// shim right before the planned system call.
pub fn crash_child_main(args: &[String]) -> i32 {
    crate::quiet_panics();
    let Some(a) = args.first() else { return 2 };
    let v: serde_json::Value = match serde_json::from_str(a) {
        Ok(v) => v,
        Err(_) => return 2,
    };
    let Ok(op) = serde_json::from_value::<IoOp>(v["op"].clone()) else { return 2 };
    let path = v["path"].as_str().unwrap_or("").to_string();
    let k = v["kill_at"].as_u64().unwrap_or(0) as u32;
    if let Some(d) = v["cwd"].as_str() {
        let _ = std::env::set_current_dir(d);
    }
    let Ok(prep) = prepare(&op) else { return 3 };
    let mut plan = op.plan.resolve(prep.expected.len());
    plan.kill_at = Some(k);
    shim::arm(plan);
    let _ = catch_unwind(AssertUnwindSafe(|| match op.kind {
        Kind::Svg => svg_builder_from(&prep.setters).to_file(&prep.qr, &path).map_err(|_| ()),
        Kind::Png => img_builder_from(&prep.setters).to_file(&prep.qr, &path).map_err(|_| ()),
    }));
    0
}

/// `{path}` the target as given, `{dir}` its directory, `{name}` its file name, `{stem}` the
/// name without its last extension, `{pid}` this process.
fn expand_litter(template: &str, path: &str) -> String {
    let p = Path::new(path);
    let dir = match p.parent() {
        Some(d) if !d.as_os_str().is_empty() => d.to_string_lossy().to_string(),
        _ => ".".to_string(),
    };
    let name = p.file_name().map(|n| n.to_string_lossy().to_string()).unwrap_or_default();
    let stem = p.file_stem().map(|n| n.to_string_lossy().to_string()).unwrap_or_default();
    if name.is_empty() {
        return String::new();
    }
    template
        .replace("{path}", path)
        .replace("{dir}", &dir)
        .replace("{name}", &name)
        .replace("{stem}", &stem)
        .replace("{pid}", &std::process::id().to_string())
}

fn first_diff(a: &[u8], b: &[u8]) -> usize {
    a.iter().zip(b.iter()).position(|(x, y)| x != y).unwrap_or(a.len().min(b.len()))
}

/// Executes one run in its own directory. Returns per-op reports; stops at the first violation.
pub fn exec_run(ctx: &Ctx, run: &IoRun, stats: &mut Stats) -> (Vec<OpReport>, u64) {
    let dir = ctx.scratch.join(format!("r{}", run.index));
    let _ = std::fs::remove_dir_all(&dir);
    std::fs::create_dir_all(&dir).expect("create run dir");
    let old_cwd = std::env::current_dir().ok();
    std::env::set_current_dir(&dir).expect("chdir run dir");
    let mut reports = Vec::new();
    let mut h: u64 = run.seed;
    stats.runs += 1;
    for (i, op) in run.ops.iter().enumerate() {
        let rep = exec_op(&dir, i, op, stats, None);
        h = fold(h, digest128(&[format!("{}|{}|{}|{:?}", rep.result, rep.file, rep.expected_len, rep.delivered.log).as_bytes()])[0]);
        let stop = rep.violation.is_some();
        reports.push(rep);
        if stop {
            break;
        }
    }
    if let Some(c) = old_cwd {
        let _ = std::env::set_current_dir(c);
    }
    let _ = std::fs::remove_dir_all(&dir);
    (reports, h)
}

fn resolve_path(dir: &Path, t: &Target) -> String {
    let d = dir.to_str().expect("utf8 scratch path");
    match t {
        Target::Scratch(n) => format!("{}/{}", d, n),
        Target::Relative(n) => n.clone(),
        Target::Sub(n) => format!("{}/sub dir/{}", d, n),
        Target::MissingDir(n) => format!("{}/no-such-dir/{}", d, n),
        Target::IsDir => format!("{}/a-directory", d),
        Target::NotDir => format!("{}/a-file/child.out", d),
        Target::LongName => format!("{}/{}", d, "n".repeat(300)),
        Target::Nul => format!("{}/nul\0name", d),
        Target::Empty => String::new(),
        // a symlink inside the run directory: the code under test runs as root, and a
        // temp-file-and-rename implementation must replace the link, never the device node
        Target::DevFull => format!("{}/full-device", d),
        Target::DevFullNamed(n) => format!("{}/{}", d, n),
        Target::Odd(i) => ODD_PATHS[(*i as usize) % ODD_PATHS.len()].replace("{d}", d),
        Target::SymlinkToDir => format!("{}/link-to-directory", d),
        Target::SymlinkLoop => format!("{}/link-to-itself", d),
    }
}

/// The QR code, the final setter list (after size padding) and the in-memory rendering of an
/// operation. Computed right before the call normally; concurrent-caller runs compute it for
/// every operation *before* the callers start, so that nothing a caller leaves behind can
/// influence what "the bytes the in-memory rendering produces" means.
pub struct Prepared {
    pub qr: Box<QRCode>,
    pub setters: Vec<RSetter>,
    pub expected: Vec<u8>,
}

/// `Err(reason)`: the operation is not a C19 case (the QR code or the in-memory rendering is not Ok).
pub fn prepare(op: &IoOp) -> Result<Prepared, &'static str> {
    let qr = match catch_unwind(|| op.qr.fresh_builder().build()) {
        Ok(Ok(qr)) => Box::new(qr),
        Ok(Err(_)) => return Err("qr_err"),
        Err(_) => return Err("qr_panic"),
    };
    let mut setters = op.setters.clone();
    let expected: Vec<u8>;
    match op.kind {
        Kind::Svg => {
            if let Some(target_len) = op.pad_to {
                // grow the filler image so that the text is exactly target_len bytes long
                let probe = catch_unwind(AssertUnwindSafe(|| svg_builder_from(&setters).to_str(&qr).len()));
                let base = match probe {
                    Ok(n) => n,
                    Err(_) => return Err("render_panic"),
                };
                let cur_fill = setters
                    .iter()
                    .rev()
                    .find_map(|s| if let RSetter::Image(ImageSpec::Filler(n)) = s { Some(*n) } else { None })
                    .unwrap_or(0);
                let has_filler_last = matches!(
                    setters.iter().rev().find(|s| matches!(s, RSetter::Image(_))),
                    Some(RSetter::Image(ImageSpec::Filler(_)))
                );
                if has_filler_last && base - cur_fill <= target_len {
                    let want = target_len - (base - cur_fill);
                    if let Some(pos) = setters.iter().rposition(|s| matches!(s, RSetter::Image(ImageSpec::Filler(_)))) {
                        setters[pos] = RSetter::Image(ImageSpec::Filler(want));
                    }
                }
            }
            let b = svg_builder_from(&setters);
            match catch_unwind(AssertUnwindSafe(|| b.to_str(&qr).into_bytes())) {
                Ok(e) => expected = e,
                Err(_) => return Err("render_panic"),
            }
        }
        Kind::Png => {
            let b = img_builder_from(&setters);
            match catch_unwind(AssertUnwindSafe(|| b.to_bytes(&qr))) {
                Ok(Ok(e)) => expected = e,
                Ok(Err(_)) => return Err("render_err"),
                Err(_) => return Err("render_panic"),
            }
        }
    }
    Ok(Prepared { qr, setters, expected })
}

pub fn exec_op(dir: &Path, idx: usize, op: &IoOp, stats: &mut Stats, pre: Option<&Prepared>) -> OpReport {
    stats.ops += 1;
    let mut rep = OpReport {
        skipped: None,
        expected_len: 0,
        result: String::new(),
        file: String::new(),
        delivered: Default::default(),
        path_class: op.target.class().to_string(),
        violation: None,
    };
    let skip = |mut rep: OpReport, why: &str, stats: &mut Stats| {
        stats.ops_skipped += 1;
        stats.bump(&format!("skip:{}", why), 1);
        rep.skipped = Some(why.to_string());
        rep
    };

    // 0. Which comes first, the call or the in-memory rendering it is compared with? Normally the
    // rendering (fault positions are relative to its length). But an in-memory rendering made
    // right before the call also *primes* whatever the crate remembers from its last encode, and
    // would hide a `to_file` that trusts such a memory too much. So fault-free exports take the
    // other order every second time: `to_file` first, `to_str` / `to_bytes` afterwards.
    if pre.is_none()
        && op.pad_to.is_none()
        && op.plan.is_empty()
        && op.rlimit.is_none()
        && op.crash_at.is_none()
        && op.cb_panic_at.is_none()
        && op.litter.is_empty()
        && matches!(op.pre, Pre::Absent | Pre::Removed | Pre::Other(_))
        && matches!(op.target, Target::Scratch(_) | Target::Sub(_))
        && digest128(&[serde_json::to_string(op).unwrap_or_default().as_bytes()])[0] % 2 == 0
    {
        return exec_op_call_first(dir, idx, op, stats, rep);
    }

    // 1+2. the QR code, the renderer, and the in-memory rendering = the expected file content
    let computed;
    let prep: &Prepared = match pre {
        Some(p) => p,
        None => match prepare(op) {
            Ok(p) => {
                computed = p;
                &computed
            }
            Err(why) => {
                // Not a C19 case - but if it is the raster path that panics on these options,
                // the call is made all the same (its outcome does not matter; what a panicking
                // call leaves behind on this thread and in this process for later calls does).
                if why == "render_panic" && op.kind == Kind::Png && !op.target.kernel_fault() {
                    if let Ok(Ok(q)) = catch_unwind(|| op.qr.fresh_builder().build()) {
                        let p = resolve_path(dir, &op.target);
                        let r = catch_unwind(AssertUnwindSafe(|| img_builder_from(&op.setters).to_file(&q, &p)));
                        if r.is_err() {
                            stats.bump("fired:caller_panicked_in_renderer(real)", 1);
                        }
                    }
                }
                return skip(rep, why, stats);
            }
        },
    };
    let qr: &QRCode = &prep.qr;
    let expected: &Vec<u8> = &prep.expected;
    let (svg_b, img_b) = match op.kind {
        Kind::Svg => (Some(svg_builder_from(&prep.setters)), None),
        Kind::Png => (None, Some(img_builder_from(&prep.setters))),
    };
    rep.expected_len = expected.len();
    if let Some(t) = op.pad_to {
        if expected.len() == t {
            stats.bump("probe:exact_padded_size", 1);
        }
    }

    // 3. pre-state at the target
    if pre.is_none() {
        // single-caller run: this call's working directory (relative destinations follow it)
        let wd = match op.cwd % 3 {
            0 => dir.to_path_buf(),
            1 => dir.join("cwd-b"),
            _ => dir.join("cwd-gone"),
        };
        let _ = std::fs::create_dir_all(&wd);
        let _ = std::env::set_current_dir(&wd);
        if op.cwd % 3 == 2 {
            // the process now sits in a directory that no longer exists: nothing can be created
            // through a relative path, and the working directory cannot even be named
            let _ = std::fs::remove_dir(&wd);
            stats.bump("fired:kernel_cwd_removed", 1);
        }
    }
    let path = resolve_path(dir, &op.target);
    match op.target {
        Target::IsDir => {
            let _ = std::fs::create_dir_all(&path);
        }
        Target::NotDir => {
            let _ = std::fs::write(dir.join("a-file"), b"i am a file");
        }
        Target::SymlinkToDir => {
            let _ = std::fs::create_dir_all(dir.join("a-directory"));
            let _ = std::fs::remove_file(&path);
            let _ = std::os::unix::fs::symlink(dir.join("a-directory"), &path);
        }
        Target::SymlinkLoop => {
            let _ = std::fs::remove_file(&path);
            let _ = std::os::unix::fs::symlink(&path, &path);
        }
        Target::Odd(_) => {
            let _ = std::fs::create_dir_all(dir.join("a-directory"));
            let _ = std::fs::write(dir.join("a-file"), b"i am a file");
        }
        Target::DevFull | Target::DevFullNamed(_) => {
            if !dev_full_ok() {
                return skip(rep, "no_dev_full", stats);
            }
            let _ = std::fs::remove_file(&path);
            if std::os::unix::fs::symlink("/dev/full", &path).is_err() {
                return skip(rep, "no_dev_full", stats);
            }
        }
        Target::Relative(_) if op.cwd % 3 == 2 && pre.is_none() => {
            // nothing can be put at a relative path: the working directory is gone
        }
        Target::Scratch(_) | Target::Relative(_) | Target::Sub(_) => {
            if matches!(op.target, Target::Sub(_)) {
                let _ = std::fs::create_dir_all(dir.join("sub dir"));
            }
            let existing = std::fs::read(&path).ok();
            let pre: Option<Vec<u8>> = match &op.pre {
                Pre::Absent => None,
                Pre::Shorter => Some(expected[..expected.len() / 2].to_vec()),
                Pre::Longer(extra) => {
                    let mut v = expected.clone();
                    v.extend(std::iter::repeat(b'Z').take(*extra));
                    Some(v)
                }
                Pre::Identical => Some(expected.clone()),
                Pre::Garbage => Some(expected.iter().map(|b| b ^ 0x55).collect()),
                Pre::GarbageKeepMtime => {
                    let old = std::fs::metadata(&path).ok().and_then(|m| m.modified().ok());
                    let junk: Vec<u8> = expected.iter().map(|b| b ^ 0x33).collect();
                    if std::fs::symlink_metadata(&path).map(|m| m.file_type().is_symlink()).unwrap_or(false) {
                        let _ = std::fs::remove_file(&path);
                    }
                    std::fs::write(&path, &junk).expect("write pre-state");
                    if let Some(t) = old {
                        if let Ok(f) = std::fs::OpenOptions::new().write(true).open(&path) {
                            let _ = f.set_modified(t);
                        }
                    }
                    None
                }
                Pre::Removed => {
                    let _ = std::fs::remove_file(&path);
                    None
                }
                Pre::Other(n) => Some((0..*n).map(|i| b"unrelated content\n"[i % 18]).collect()),
                Pre::SymlinkToFile(extra) => {
                    let real = format!("{}.real", path);
                    let mut v = expected.clone();
                    v.extend(std::iter::repeat(b'Y').take(*extra));
                    let _ = std::fs::remove_file(&path);
                    if std::fs::write(&real, &v).is_ok() {
                        let _ = std::os::unix::fs::symlink(&real, &path);
                    }
                    None
                }
                Pre::DanglingSymlink => {
                    let _ = std::fs::remove_file(&path);
                    let _ = std::fs::remove_file(format!("{}.not-yet", path));
                    let _ = std::os::unix::fs::symlink(format!("{}.not-yet", path), &path);
                    None
                }
                Pre::RelSymlink { dangling } => {
                    let p = Path::new(&path);
                    let name = p.file_name().map(|n| n.to_string_lossy().to_string()).unwrap_or_default();
                    let parent = p.parent().map(|d| d.to_path_buf()).unwrap_or_default();
                    let rel = format!("{}.rel-target", name);
                    let _ = std::fs::remove_file(&path);
                    let _ = std::fs::remove_file(parent.join(&rel));
                    if !*dangling {
                        let mut v = expected.clone();
                        v.extend(std::iter::repeat(b'R').take(777));
                        let _ = std::fs::write(parent.join(&rel), &v);
                    }
                    if !name.is_empty() {
                        let _ = std::os::unix::fs::symlink(&rel, &path);
                    }
                    None
                }
                Pre::HardLinkTwin => {
                    let twin = format!("{}.twin", path);
                    let mut v = expected.clone();
                    v.extend(std::iter::repeat(b'T').take(333));
                    let _ = std::fs::remove_file(&path);
                    let _ = std::fs::remove_file(&twin);
                    if std::fs::write(&twin, &v).is_ok() {
                        let _ = std::fs::hard_link(&twin, &path);
                    }
                    None
                }
            };
            match pre {
                None => {
                    // "absent" means: whatever an earlier op of this run left there stays
                    // (that is how failed-then-succeeded-on-the-same-path arises)
                    if existing.is_some() && op.pre == Pre::Absent {
                        stats.bump("probe:target_left_by_earlier_op", 1);
                    }
                }
                Some(v) => {
                    if std::fs::symlink_metadata(&path).map(|m| m.file_type().is_symlink()).unwrap_or(false) {
                        let _ = std::fs::remove_file(&path);
                    }
                    std::fs::write(&path, &v).expect("write pre-state");
                }
            }
        }
        _ => {}
    }
    // 3b. debris next to the target (left by a crashed or unrelated writer)
    for l in &op.litter {
        if op.target.kernel_fault() {
            break;
        }
        let lp = expand_litter(&l.name, &path);
        if lp == path || lp.is_empty() {
            continue;
        }
        if l.is_dir {
            if std::fs::create_dir_all(&lp).is_ok() {
                stats.bump("pre:litter_dir", 1);
            }
        } else {
            let n = match l.longer_by {
                Some(k) => expected.len() + k,
                None => expected.len() / 3,
            };
            let junk: Vec<u8> = (0..n).map(|i| b"stale-debris."[i % 13]).collect();
            if std::fs::metadata(&lp).map(|m| m.is_dir()).unwrap_or(false) {
                continue;
            }
            if std::fs::write(&lp, &junk).is_ok() {
                stats.bump("pre:litter_file", 1);
            }
        }
    }

    // 3c. crash and restart: the call runs in another process that is killed at its k-th system call
    if let (Some(k), None) = (op.crash_at, pre) {
        // A separate process image (not a fork of this one: a forked copy would inherit locks and
        // "already started" flags of helper threads that do not exist in it).
        let here = std::env::current_dir().map(|p| p.to_string_lossy().to_string()).unwrap_or_else(|_| dir.to_string_lossy().to_string());
        let spec = serde_json::json!({"op": op, "path": path, "kill_at": k, "cwd": here});
        let code = match run_crash_child(&spec.to_string()) {
            Ok(c) => c,
            Err(why) => return skip(rep, why, stats),
        };
        if code == 137 {
            stats.bump("fired:crash_mid_call", 1);
            stats.tuples.insert(format!("{:?}|crash_at_syscall={}|{}", op.kind, k.min(12), if expected.len() > 65536 { ">64K" } else { "<=64K" }));
            rep.result = format!("Crashed(at syscall {})", k);
        } else {
            stats.bump("note:crash_point_not_reached", 1);
            rep.result = "CrashPointNotReached".into();
        }
        rep.file = match std::fs::metadata(&path) {
            Ok(m) => format!("left(len={})", m.len()),
            Err(_) => "left(absent)".into(),
        };
        return rep;
    }

    let had_longer = match std::fs::metadata(&path) {
        Ok(m) => m.is_file() && m.len() as usize > expected.len(),
        Err(_) => false,
    };

    // 4. the call, under the fault plan
    let plan = op.plan.resolve(expected.len());
    let limit = op.rlimit.as_ref().map(|p| p.resolve(expected.len() as u64));
    let saved_limit = if limit.is_some() { set_fsize_limit(limit) } else { None };
    shim::arm(plan);
    CB_CALLS.with(|c| c.set(0));
    CB_PANIC_AT.with(|c| c.set(if pre.is_none() { op.cb_panic_at } else { None }));
    let outcome = catch_unwind(AssertUnwindSafe(|| -> Result<(), String> {
        match (op.kind, op.via_convert) {
            (Kind::Svg, false) => svg_b.as_ref().unwrap().to_file(&qr, &path).map_err(|e| format!("{:?}", e)),
            (Kind::Svg, true) => call_via_convert_svg(svg_b.as_ref().unwrap(), &qr, &path).map_err(|e| format!("{:?}", e)),
            (Kind::Png, false) => img_b.as_ref().unwrap().to_file(&qr, &path).map_err(|e| format!("{:?}", e)),
            (Kind::Png, true) => call_via_convert_png(img_b.as_ref().unwrap(), &qr, &path).map_err(|e| format!("{:?}", e)),
        }
    }));
    CB_PANIC_AT.with(|c| c.set(None));
    let delivered = shim::disarm();
    if let Some(old) = saved_limit {
        restore_fsize_limit(old);
    }

    // 5. observe
    let still_device_link = matches!(op.target, Target::DevFull | Target::DevFullNamed(_))
        && std::fs::symlink_metadata(&path).map(|m| m.file_type().is_symlink()).unwrap_or(false);
    let file_state: (String, bool) = if still_device_link {
        ("dev_full".into(), false)
    } else {
        match std::fs::read(&path) {
            Ok(got) => {
                if got == *expected {
                    ("exact".into(), true)
                } else {
                    (
                        format!("differs(len={} expected={} first_diff={})", got.len(), expected.len(), first_diff(&got, &expected)),
                        false,
                    )
                }
            }
            Err(e) => (format!("unreadable({:?})", e.kind()), false),
        }
    };
    rep.file = file_state.0.clone();
    let exact = file_state.1;

    let kernel_limit_bites = limit.map(|l| (l as usize) < expected.len()).unwrap_or(false);
    let hard = delivered.hard() > 0 || op.target.kernel_fault() || kernel_limit_bites;

    match &outcome {
        Err(p) if p.downcast_ref::<crate::SimCrash>().is_some() => {
            // the simulator itself killed this caller mid-call (concurrent-caller runs): no verdict
            rep.result = "Died(caller's callback panicked)".into();
            stats.bump("fired:callback_panic_inside_to_file", 1);
        }
        Err(p) => {
            let msg = panic_message(p.as_ref());
            rep.result = format!("Panic({})", msg);
            stats.result_panic += 1;
            rep.violation = Some(Violation {
                invariant: "O1_panic".into(),
                op_index: idx,
                kind: op.kind,
                detail: format!(
                    "to_file panicked ({}) ; target={} faults_delivered={:?}",
                    msg,
                    op.target.class(),
                    delivered.log
                ),
            });
        }
        Ok(Ok(())) => {
            rep.result = "Ok".into();
            stats.result_ok += 1;
            if still_device_link {
                rep.violation = Some(Violation {
                    invariant: "O2_ok_on_unwritable_target".into(),
                    op_index: idx,
                    kind: op.kind,
                    detail: format!("to_file returned Ok for /dev/full, which accepts no bytes ({} expected)", expected.len()),
                });
            } else if !exact {
                rep.violation = Some(Violation {
                    invariant: "O2_ok_but_file_wrong".into(),
                    op_index: idx,
                    kind: op.kind,
                    detail: format!(
                        "to_file returned Ok but the file is {} ; target={} pre={} rlimit={:?} delivered={:?}",
                        rep.file,
                        op.target.class(),
                        op.pre.class(),
                        limit,
                        delivered.log
                    ),
                });
            } else {
                if delivered.benign() > 0 {
                    stats.bump("probe:ok_under_benign_faults", 1);
                }
                if had_longer {
                    stats.bump("probe:ok_over_longer_preexisting_file", 1);
                }
                if hard {
                    // only possible if the implementation recovered (or the fault did not bite)
                    stats.bump("probe:ok_exact_despite_hard_fault", 1);
                }
            }
        }
        Ok(Err(e)) => {
            rep.result = format!("Err({})", crate::rng::head(e, 120));
            stats.result_err += 1;
            if !hard {
                stats.bump("note:err_without_hard_fault", 1);
            }
            if delivered.bytes_accepted > 0 && delivered.bytes_accepted < expected.len() as u64 {
                stats.bump("probe:err_after_partial_write", 1);
            }
            if kernel_limit_bites {
                stats.bump("probe:torn_write_real_kernel", 1);
            }
            if op.via_convert {
                stats.bump("probe:err_through_convert_error", 1);
            }
        }
    }

    // 6. account
    stats.syscalls += (delivered.opens + delivered.writes + delivered.closes + delivered.fsyncs + delivered.metas) as u64;
    stats.bytes_written += delivered.bytes_accepted;
    stats.bump("fired:open_eintr", delivered.open_eintr as u64);
    stats.bump("fired:open_hard", delivered.open_hard as u64);
    stats.bump("fired:write_short", delivered.write_short as u64);
    stats.bump("fired:write_eintr", delivered.write_eintr as u64);
    stats.bump("fired:write_hard", delivered.write_hard as u64);
    stats.bump("fired:write_zero", delivered.write_zero as u64);
    stats.bump("fired:disk_full_short", delivered.disk_full_short as u64);
    stats.bump("fired:disk_full_enospc", delivered.disk_full_err as u64);
    stats.bump("fired:dribble_short", delivered.dribble_short as u64);
    stats.bump("fired:close_err", delivered.close_err as u64);
    stats.bump("fired:fsync_err", delivered.fsync_err as u64);
    stats.bump("fired:meta_err", delivered.meta_err as u64);
    if op.target.kernel_fault() {
        stats.bump(&format!("fired:kernel_{}", op.target.class()), 1);
    }
    if kernel_limit_bites {
        stats.bump("fired:kernel_rlimit_fsize", 1);
    }
    if op.pre != Pre::Absent && !op.target.kernel_fault() {
        stats.bump(&format!("pre:{}", op.pre.class()), 1);
    }
    let first_hard = delivered
        .log
        .iter()
        .find(|l| l.contains("=E") && !l.contains("EINTR") || l.ends_with("=0"))
        .map(|l| {
            // "write#3(100)=ENOSPC@12" -> "write#3=ENOSPC"
            let head = l.split('(').next().unwrap_or("");
            let tail = l.rsplit('=').next().unwrap_or("");
            let tail = tail.split('@').next().unwrap_or("");
            let head = if let Some((name, n)) = head.split_once('#') {
                let n: u32 = n.split('=').next().unwrap_or("0").parse().unwrap_or(0);
                format!("{}#{}", name, if n >= 4 { "4+".to_string() } else { n.to_string() })
            } else {
                head.split('=').next().unwrap_or("").to_string()
            };
            format!("{}={}", head, tail)
        })
        .unwrap_or_else(|| "-".into());
    let len_class = match expected.len() {
        0..=4096 => "<=4K",
        4097..=65536 => "<=64K",
        _ => ">64K",
    };
    let benign_sig = format!(
        "{}{}{}{}{}{}",
        if delivered.open_eintr > 0 { "i" } else { "" },
        if delivered.write_short > 0 { "s" } else { "" },
        if delivered.write_eintr > 0 { "e" } else { "" },
        if delivered.dribble_short > 0 { "d" } else { "" },
        if delivered.disk_full_short > 0 { "f" } else { "" },
        if delivered.close_err + delivered.fsync_err > 0 { "c" } else { "" },
    );
    let result_class = rep.result.split('(').next().unwrap_or("").to_string();
    let nontrivial = hard || delivered.benign() > 0 || (op.pre != Pre::Absent && !op.target.kernel_fault());
    if nontrivial {
        stats.tuples.insert(format!(
            "{:?}|{}|{}|{}|{}|{}|rl={}|{}",
            op.kind,
            op.target.class(),
            if op.target.kernel_fault() { "-" } else { op.pre.class() },
            first_hard,
            benign_sig,
            len_class,
            if kernel_limit_bites { "y" } else { "n" },
            result_class
        ));
    }
    if stats.samples.len() < 3 && nontrivial && (stats.ops % 7 == 1) {
        stats.samples.push(serde_json::json!({
            "kind": format!("{:?}", op.kind),
            "qr": {"input_len": op.qr.input.len(), "version": op.qr.version, "ecl": op.qr.ecl},
            "setters": op.setters.len(),
            "target": op.target.class(),
            "pre": op.pre.class(),
            "plan": op.plan,
            "expected_len": expected.len(),
            "syscalls": delivered.log.iter().take(8).collect::<Vec<_>>(),
            "result": rep.result,
            "file": rep.file,
        }));
    }
    rep.delivered = delivered;
    rep
}

/// A fault-free PNG export judged in the other order: the call first, the in-memory rendering it
/// must equal afterwards (see step 0 of `exec_op`).
fn exec_op_call_first(dir: &Path, idx: usize, op: &IoOp, stats: &mut Stats, mut rep: OpReport) -> OpReport {
    let skip = |mut rep: OpReport, why: &str, stats: &mut Stats| {
        stats.ops_skipped += 1;
        stats.bump(&format!("skip:{}", why), 1);
        rep.skipped = Some(why.to_string());
        rep
    };
    let qr = match catch_unwind(|| op.qr.fresh_builder().build()) {
        Ok(Ok(q)) => Box::new(q),
        Ok(Err(_)) => return skip(rep, "qr_err", stats),
        Err(_) => return skip(rep, "qr_panic", stats),
    };
    let (svg_b, img_b) = match op.kind {
        Kind::Svg => (Some(svg_builder_from(&op.setters)), None),
        Kind::Png => (None, Some(img_builder_from(&op.setters))),
    };
    let wd = match op.cwd % 3 {
        0 => dir.to_path_buf(),
        1 => dir.join("cwd-b"),
        _ => dir.to_path_buf(),
    };
    let _ = std::fs::create_dir_all(&wd);
    let _ = std::env::set_current_dir(&wd);
    let path = resolve_path(dir, &op.target);
    if matches!(op.target, Target::Sub(_)) {
        let _ = std::fs::create_dir_all(dir.join("sub dir"));
    }
    match &op.pre {
        Pre::Removed => {
            let _ = std::fs::remove_file(&path);
        }
        Pre::Other(n) => {
            if std::fs::symlink_metadata(&path).map(|m| m.file_type().is_symlink()).unwrap_or(false) {
                let _ = std::fs::remove_file(&path);
            }
            let v: Vec<u8> = (0..*n).map(|i| b"unrelated content\n"[i % 18]).collect();
            let _ = std::fs::write(&path, &v);
        }
        _ => {}
    }
    shim::arm(Plan::default());
    let outcome = catch_unwind(AssertUnwindSafe(|| match op.kind {
        Kind::Svg => svg_b.as_ref().unwrap().to_file(&qr, &path).map_err(|e| format!("{:?}", e)),
        Kind::Png => img_b.as_ref().unwrap().to_file(&qr, &path).map_err(|e| format!("{:?}", e)),
    }));
    let delivered = shim::disarm();
    // only now the in-memory rendering
    let expected = match catch_unwind(AssertUnwindSafe(|| match op.kind {
        Kind::Svg => Ok(svg_b.as_ref().unwrap().to_str(&qr).into_bytes()),
        Kind::Png => img_b.as_ref().unwrap().to_bytes(&qr).map_err(|_| ()),
    })) {
        Ok(Ok(e)) => e,
        Ok(Err(_)) => return skip(rep, "render_err", stats),
        Err(_) => return skip(rep, "render_panic", stats),
    };
    rep.expected_len = expected.len();
    stats.bump("probe:call_first_then_in_memory_rendering", 1);
    let got = std::fs::read(&path);
    rep.file = match &got {
        Ok(g) if *g == expected => "exact".into(),
        Ok(g) => format!("differs(len={} expected={} first_diff={})", g.len(), expected.len(), first_diff(g, &expected)),
        Err(e) => format!("unreadable({:?})", e.kind()),
    };
    match &outcome {
        Err(p) => {
            let msg = panic_message(p.as_ref());
            rep.result = format!("Panic({})", msg);
            stats.result_panic += 1;
            rep.violation = Some(Violation { invariant: "O1_panic".into(), op_index: idx, kind: op.kind, detail: format!("to_file panicked ({}) ; target={} (call made before the in-memory rendering)", msg, op.target.class()) });
        }
        Ok(Ok(())) => {
            rep.result = "Ok".into();
            stats.result_ok += 1;
            if rep.file != "exact" {
                rep.violation = Some(Violation {
                    invariant: "O2_ok_but_file_wrong".into(),
                    op_index: idx,
                    kind: op.kind,
                    detail: format!(
                        "to_file returned Ok but the file is {} compared with the in-memory rendering made right after the call ; target={} pre={} delivered={:?}",
                        rep.file,
                        op.target.class(),
                        op.pre.class(),
                        delivered.log
                    ),
                });
            }
        }
        Ok(Err(e)) => {
            rep.result = format!("Err({})", crate::rng::head(e, 120));
            stats.result_err += 1;
            stats.bump("note:err_without_hard_fault", 1);
        }
    }
    stats.syscalls += (delivered.opens + delivered.writes + delivered.closes + delivered.fsyncs + delivered.metas) as u64;
    stats.bytes_written += delivered.bytes_accepted;
    rep.delivered = delivered;
    rep
}

pub fn run_hash_line(index: u64, h: u64) -> String {
    format!("{{\"run\":{},\"h\":\"{:016x}\"}}", index, h)
}

#[allow(dead_code)]
pub fn hex_of(d: [u64; 2]) -> String {
    hex128(d)
}
