//! C19 with several callers: 2..4 simulated caller threads write *different*
//! files into the *same* directory at the same time, under the baton
//! scheduler. Scheduling points are the crate's `verif_point!` sites and every
//! tracked system call (open / write / rename / close), so "who runs next" is
//! decided by the seeded policy exactly where a create-write-rename sequence
//! can be torn apart. The oracle is the single-caller one, per call: no panic,
//! and Ok implies the caller's own file holds exactly its in-memory rendering.
//!
//! Distinct target paths per task are essential for soundness: two callers
//! writing the *same* path concurrently may legitimately leave either content.

use std::sync::{Arc, Mutex};

use serde::{Deserialize, Serialize};

use super::*;
use crate::c14::sched::{self, Policy, SchedSpec, Sim};
use crate::rng::{mix, Rng};

pub const CONC_BASE: u64 = 2_000_000_000;

#[derive(Clone, Debug, Serialize, Deserialize)]
pub struct ConcRun {
    pub index: u64,
    pub seed: u64,
    pub sched: SchedSpec,
    pub tasks: Vec<Vec<IoOp>>,
    /// fault `caller_killed_mid_call`: (task, op, k) = that call is unwound at the k-th
    /// scheduling point it reaches (as a cancelled or panicking caller thread would be)
    #[serde(default)]
    pub kills: Vec<(usize, usize, u32)>,
}

impl ConcRun {
    pub fn n_ops(&self) -> usize {
        self.tasks.iter().map(|t| t.len()).sum()
    }
}

pub fn gen_conc_run(verif_seed: u64, j: u64) -> ConcRun {
    let index = CONC_BASE + j;
    let seed = mix(verif_seed, index);
    let mut rng = Rng::new(seed);
    let n_tasks = rng.range(2, 4) as usize;
    let faulty = rng.chance(1, 2);
    let same_content = rng.chance(1, 3);
    let same_stem = rng.chance(1, 2);
    let shared_qr = gen_qr_for_io(&mut rng, Kind::Svg);
    let mut tasks = Vec::new();
    for t in 0..n_tasks {
        let n_ops = rng.range(1, 3) as usize;
        let mut ops = Vec::new();
        for k in 0..n_ops {
            let kind = if rng.chance(3, 4) { Kind::Svg } else { Kind::Png };
            let is_img = kind == Kind::Png;
            let mut qr = if same_content { shared_qr.clone() } else { gen_qr_for_io(&mut rng, kind) };
            if is_img && qr.input.len() > 100 {
                qr.input.truncate(60);
                qr.version = None;
            }
            let mut setters = if same_content { vec![] } else { gen::gen_rsetters(&mut rng, is_img, is_img, false) };
            // (concurrent runs keep renderers small: no very-many-layer documents)
            setters.truncate(12);
            let mut kind = kind;
            // a caller often exports the same thing again (to the same or another file) while the
            // others export something else: where "already done" shortcuts meet concurrency
            if k > 0 && !same_content && rng.chance(1, 2) {
                let prev: &IoOp = &ops[k - 1];
                kind = prev.kind;
                qr = prev.qr.clone();
                setters = prev.setters.clone();
            }
            let mut plan = PlanSpec::default();
            if faulty {
                match rng.below(6) {
                    0 => plan.chunk = Some(ChunkSpec::Parts(*rng.pick(&[2u32, 3, 5]))),
                    1 => plan.write.push((0, shim::WriteFault::Short(shim::ShortSpec::Half))),
                    2 => plan.disk_full = Some(Pos::Permille(rng.below(1000) as u32)),
                    3 => plan.open.push((0, shim::OpenFault::Hard(*rng.pick(&OPEN_ERRNOS)))),
                    4 => plan.meta_err = Some(*rng.pick(&[libc::EXDEV, libc::ENOSPC, libc::EIO])),
                    _ => {}
                }
            }
            let pre = match rng.weighted(&[6, 1, 2, 1]) {
                0 => Pre::Absent,
                1 => Pre::Shorter,
                2 => Pre::Longer(*rng.pick(&[1usize, 4096])),
                _ => Pre::Garbage,
            };
            // distinct targets per (task, op) - unless the task deliberately rewrites its own file -
            // in one of two naming styles: different stems, or one stem with different extensions
            let kk = if k > 0 && rng.chance(1, 3) { 0 } else { k };
            let name = if same_stem { format!("label.t{}k{}", t, kk) } else { format!("t{}-{}.out", t, kk) };
            // now and then the caller's own device is full (no stub involved in the failure)
            let target = if faulty && rng.chance(1, 6) { Target::DevFullNamed(format!("{}.full", name)) } else { Target::Scratch(name) };
            ops.push(IoOp {
                kind,
                qr,
                setters,
                target,
                pre,
                plan,
                via_convert: rng.chance(1, 2),
                pad_to: None,
                rlimit: None,
                litter: Vec::new(),
                cb_panic_at: None,
                cwd: 0,
                crash_at: None,
            });
        }
        tasks.push(ops);
    }
    let policy = match rng.weighted(&[3, 3, 2, 2]) {
        0 => Policy::Uniform,
        1 => Policy::Sticky(*rng.pick(&[0.1, 0.3, 0.6])),
        2 => {
            let d = rng.range(1, 3);
            Policy::Pct((0..d).map(|_| rng.below(300)).collect())
        }
        _ => Policy::OpBoundary(1.0),
    };
    // a caller whose render really panics (the raster path cannot parse a document with a quote
    // in the image reference): pre-existing behaviour of that one call, and the only way a
    // caller can leave `to_file` early. Whatever it held must not break the other callers.
    if faulty && rng.chance(1, 3) {
        let t = rng.usize_below(tasks.len());
        let at = rng.usize_below(tasks[t].len() + 1);
        let poison = IoOp {
            kind: Kind::Png,
            qr: QrCfg::new(b"poison".to_vec()),
            setters: vec![RSetter::Image(ImageSpec::Raw("logo \"<draft>.png".to_string()))],
            target: Target::Scratch(format!("poison-t{}.png", t)),
            pre: Pre::Absent,
            plan: PlanSpec::default(),
            via_convert: false,
            pad_to: None,
            rlimit: None,
            litter: Vec::new(),
            cb_panic_at: None,
            cwd: 0,
            crash_at: None,
        };
        tasks[t].insert(at, poison);
    }
    let mut kills = Vec::new();
    if faulty && rng.chance(1, 3) && crate::c14::egen::inject_crashes() {
        let t = rng.usize_below(tasks.len());
        let o = rng.usize_below(tasks[t].len());
        let k = match rng.below(3) {
            0 => rng.below(10) as u32,
            1 => rng.below(80) as u32,
            _ => rng.below(400) as u32,
        };
        kills.push((t, o, k));
    }
    ConcRun {
        index,
        seed,
        sched: SchedSpec { policy, seed: rng.next_u64() },
        tasks,
        kills,
    }
}

#[derive(Clone, Debug, Serialize, Deserialize)]
pub struct ConcReport {
    pub violation: Option<Violation>,
    pub task: Option<usize>,
    pub hash: u64,
    pub decisions: Vec<u8>,
    pub switches: u64,
    pub sys_points: u64,
    pub hung: bool,
}

/// Runs one concurrent episode in its own directory.
pub fn exec_conc(ctx: &Ctx, run: &ConcRun, stats: &mut Stats) -> ConcReport {
    sched::install_hook();
    let dir = ctx.scratch.join(format!("c{}", run.index));
    let _ = std::fs::remove_dir_all(&dir);
    std::fs::create_dir_all(&dir).expect("create run dir");
    let n = run.tasks.len();
    let sim = Sim::new(n, &run.sched);
    let shared: Arc<Mutex<(Stats, Option<(usize, Violation)>, u64)>> = Arc::new(Mutex::new((Stats::default(), None, run.seed)));
    let run_arc = Arc::new(run.clone());
    // every operation's expected bytes, computed before any caller runs (nothing a caller
    // leaves behind - a poisoned lock, a dirty buffer - can then redefine "expected")
    let prepared: Arc<Vec<Vec<Option<Prepared>>>> = Arc::new(run.tasks.iter().map(|ops| ops.iter().map(|op| prepare(op).ok()).collect()).collect());
    let mut handles = Vec::new();
    for id in 0..n {
        let sim = sim.clone();
        let shared = shared.clone();
        let run = run_arc.clone();
        let prepared = prepared.clone();
        let dir = dir.clone();
        let h = std::thread::Builder::new()
            .name(format!("io-task{}", id))
            .stack_size(8 << 20)
            .spawn(move || {
                sched::task_enter(&sim, id);
                let mut local = Stats::default();
                for (i, op) in run.tasks[id].iter().enumerate() {
                    if shared.lock().unwrap().1.is_some() {
                        break;
                    }
                    let Some(pre) = prepared[id][i].as_ref() else {
                        // not a C19 case (the QR code or the in-memory rendering is not Ok). If it
                        // is the raster path that panics, the call is made all the same - its
                        // outcome does not matter, what it leaves behind for the others does.
                        if op.kind == Kind::Png {
                            if let Ok(Ok(qr)) = catch_unwind(|| op.qr.fresh_builder().build()) {
                                sched::op_boundary(&sim, id);
                                sched::op_begin(&sim, id, &sched::Crash::default());
                                shim::set_yield_at_syscalls(true);
                                let path = format!("{}/{}", dir.to_string_lossy(), match &op.target { Target::Scratch(n) => n.clone(), _ => "poison.png".into() });
                                let r = catch_unwind(AssertUnwindSafe(|| img_builder_from(&op.setters).to_file(&qr, &path)));
                                shim::set_yield_at_syscalls(false);
                                sched::op_end(&sim, id);
                                if r.is_err() {
                                    local.bump("fired:caller_panicked_in_renderer(real)", 1);
                                }
                            }
                        }
                        local.ops_skipped += 1;
                        continue;
                    };
                    sched::op_boundary(&sim, id);
                    let crash = sched::Crash {
                        at: run.kills.iter().find(|(t, o, _)| *t == id && *o == i).map(|(_, _, k)| *k),
                        site: None,
                    };
                    sched::op_begin(&sim, id, &crash);
                    shim::set_yield_at_syscalls(true);
                    let rep = exec_op(&dir, i, op, &mut local, Some(pre));
                    shim::set_yield_at_syscalls(false);
                    sched::op_end(&sim, id);
                    let mut g = shared.lock().unwrap();
                    g.2 = crate::rng::fold(
                        g.2,
                        crate::rng::digest128(&[format!("{}|{}|{}|{}|{:?}", id, i, rep.result, rep.file, rep.delivered.log).as_bytes()])[0],
                    );
                    if let Some(v) = rep.violation {
                        if g.1.is_none() {
                            g.1 = Some((id, v));
                        }
                    }
                }
                shared.lock().unwrap().0.merge(&local);
                sched::task_leave(&sim, id);
            })
            .expect("spawn io task");
        handles.push(h);
    }
    sim.start();
    let ok = sim.wait_all_done(crate::c14::STALL_SECS);
    let (decisions, _trace, sstats) = sim.snapshot();
    if !ok {
        return ConcReport { violation: None, task: None, hash: 0, decisions, switches: sstats.switches, sys_points: 0, hung: true };
    }
    for h in handles {
        let _ = h.join();
    }
    let _ = std::fs::remove_dir_all(&dir);
    let g = shared.lock().unwrap();
    stats.merge(&g.0);
    stats.runs += 1;
    stats.bump("conc:runs", 1);
    stats.bump("conc:tasks", n as u64);
    stats.bump("conc:context_switches", sstats.switches);
    let sys_points: u64 = sstats.sites.iter().filter(|(k, _)| k.starts_with("sys:")).map(|(_, v)| v[0]).sum();
    let sys_switches: u64 = sstats.sites.iter().filter(|(k, _)| k.starts_with("sys:")).map(|(_, v)| v[1]).sum();
    stats.bump("conc:syscall_scheduling_points", sys_points);
    stats.bump("conc:switches_at_syscalls", sys_switches);
    if sys_switches > 0 {
        stats.tuples.insert(format!("conc|tasks={}|{}|sys_switches={}", n, run.sched.policy.name(), sys_switches.min(6)));
    }
    ConcReport {
        violation: g.1.as_ref().map(|(_, v)| v.clone()),
        task: g.1.as_ref().map(|(t, _)| *t),
        hash: g.2,
        decisions,
        switches: sstats.switches,
        sys_points,
        hung: false,
    }
}

/// Minimisation: drop operations, then fault plans, then pre-states; keep what still fails
/// (same violation class) in a fresh process.
pub fn minimise_conc(run: &ConcRun, v: &Violation) -> (ConcRun, Violation, serde_json::Value) {
    let class = v.class();
    let mut cur = run.clone();
    let mut best = v.clone();
    let mut evals = 0u32;
    let before = cur.n_ops();
    let mut good_seed: Option<u64> = None;
    let mut fails = |cand: &ConcRun, best: &mut Violation, evals: &mut u32| -> bool {
        // dropping an operation shifts the seeded schedule: try a few other schedule seeds too
        let mut c = cand.clone();
        if let Some(sd) = good_seed {
            c.sched.seed = sd;
        }
        let orig = c.sched.seed;
        for k in 0..=4u64 {
            if *evals >= 300 {
                return false;
            }
            *evals += 1;
            if k > 0 {
                c.sched.seed = crate::rng::mix(orig, k);
            }
            if let Ok(Some(v2)) = super::driver::exec_fresh_conc(&c) {
                if v2.class() == class {
                    *best = v2;
                    if k > 0 {
                        good_seed = Some(c.sched.seed);
                    }
                    return true;
                }
            }
            if matches!(c.sched.policy, Policy::Sequential) {
                break;
            }
        }
        false
    };
    let mut progress = true;
    while progress {
        progress = false;
        for t in 0..cur.tasks.len() {
            let mut i = 0;
            while i < cur.tasks[t].len() {
                let mut cand = cur.clone();
                cand.tasks[t].remove(i);
                if cand.n_ops() >= 1 && fails(&cand, &mut best, &mut evals) {
                    cur = cand;
                    progress = true;
                } else {
                    i += 1;
                }
            }
        }
    }
    for t in 0..cur.tasks.len() {
        for i in 0..cur.tasks[t].len() {
            if !cur.tasks[t][i].plan.is_empty() {
                let mut cand = cur.clone();
                cand.tasks[t][i].plan = PlanSpec::default();
                if fails(&cand, &mut best, &mut evals) {
                    cur = cand;
                }
            }
            if cur.tasks[t][i].pre != Pre::Absent {
                let mut cand = cur.clone();
                cand.tasks[t][i].pre = Pre::Absent;
                if fails(&cand, &mut best, &mut evals) {
                    cur = cand;
                }
            }
            if !cur.tasks[t][i].setters.is_empty() {
                let mut cand = cur.clone();
                cand.tasks[t][i].setters.clear();
                if fails(&cand, &mut best, &mut evals) {
                    cur = cand;
                }
            }
        }
    }
    if !cur.kills.is_empty() {
        let mut cand = cur.clone();
        cand.kills.clear();
        if fails(&cand, &mut best, &mut evals) {
            cur = cand;
        }
    }
    // is the interleaving needed at all?
    let mut sched_note = "needs its seeded schedule";
    {
        let mut cand = cur.clone();
        cand.sched.policy = Policy::Sequential;
        if fails(&cand, &mut best, &mut evals) {
            cur = cand;
            sched_note = "schedule irrelevant: fails with tasks run one after the other";
        }
    }
    drop(fails);
    if let Some(sd) = good_seed {
        cur.sched.seed = sd;
    }
    let info = serde_json::json!({"ops_before": before, "ops_after": cur.n_ops(), "fresh_process_evaluations": evals, "schedule": sched_note});
    (cur, best, info)
}
