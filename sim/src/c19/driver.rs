//! C19 driver: systematic single-fault sweep + seeded multi-fault search,
//! executed in worker processes; confirmation, minimisation, evidence.

use std::collections::BTreeMap;
use std::time::Instant;

use serde_json::{json, Value};

use super::shim::{self, OpenFault, ShortSpec, WriteFault};
use super::*;
use crate::pool::{self, arg_u64, arg_value, has_flag};
use crate::report::{self, KnownFindings, Tier};

pub const SWEEP_BASE: u64 = 1_000_000_000;

// ---------------------------------------------------------------------------
// Systematic sweep
// ---------------------------------------------------------------------------

struct Workload {
    kind: Kind,
    qr: QrCfg,
    setters: Vec<RSetter>,
}

fn sweep_workloads(tier: Tier) -> Vec<Workload> {
    let url = b"https://example.com/".to_vec();
    let v7: Vec<u8> = (0..100u32).map(|i| b"fast_qr sweep v7 payload / "[(i as usize) % 27]).collect();
    let v40: Vec<u8> = (0..1500u32).map(|i| (i * 7 + 3) as u8).collect();
    let opts_a: Vec<RSetter> = vec![];
    let opts_b = |is_img: bool| {
        let mut v = vec![
            RSetter::Margin(2),
            RSetter::Shape(ShapeSpec(2)),
            RSetter::ShapeColor(ShapeSpec(1), ColorSpec::Rgb([200, 10, 10])),
            RSetter::BackgroundColor(ColorSpec::Rgba([250, 250, 240, 255])),
            RSetter::Image(ImageSpec::Png),
            RSetter::ImageBgShape(1),
        ];
        if is_img {
            v.push(RSetter::FitWidth(200));
        }
        v
    };
    let mut w = Vec::new();
    for kind in [Kind::Svg, Kind::Png] {
        let is_img = kind == Kind::Png;
        w.push(Workload { kind, qr: QrCfg::new(url.clone()), setters: opts_a.clone() });
        w.push(Workload { kind, qr: QrCfg::new(url.clone()), setters: opts_b(is_img) });
        w.push(Workload {
            kind,
            qr: QrCfg { ecl: Some(3), version: Some(7), ..QrCfg::new(v7.clone()) },
            setters: opts_a.clone(),
        });
        w.push(Workload {
            kind,
            qr: QrCfg { ecl: Some(1), version: Some(7), mask: Some(3), ..QrCfg::new(v7.clone()) },
            setters: opts_b(is_img),
        });
        if tier == Tier::Thorough {
            w.push(Workload {
                kind,
                qr: QrCfg { ecl: Some(0), version: Some(40), mode: Some(2), ..QrCfg::new(v40.clone()) },
                setters: opts_a.clone(),
            });
            w.push(Workload {
                kind,
                qr: QrCfg { ecl: Some(2), version: Some(40), mode: Some(2), ..QrCfg::new(v40.clone()) },
                setters: if is_img { vec![RSetter::FitHeight(256), RSetter::Shape(ShapeSpec(5))] } else { opts_b(false) },
            });
        }
    }
    w
}

/// Every single fault at the create and at every write-call index the fault-free
/// run reaches, every disk-full boundary, every pre-state, every real-kernel target.
pub fn build_sweep(tier: Tier) -> Vec<IoRun> {
    let mut runs: Vec<IoRun> = Vec::new();
    let mut push = |w: &Workload, target: Target, pre: Pre, plan: PlanSpec, rlimit: Option<Pos>, runs: &mut Vec<IoRun>| {
        let i = runs.len() as u64;
        runs.push(IoRun {
            index: SWEEP_BASE + i,
            seed: i,
            class: "sweep".into(),
            ops: vec![IoOp {
                kind: w.kind,
                qr: w.qr.clone(),
                setters: w.setters.clone(),
                target,
                pre,
                plan,
                via_convert: i % 2 == 1,
                pad_to: None,
                rlimit,
                litter: Vec::new(),
                cb_panic_at: None,
                cwd: 0,
                crash_at: None,
            }],
        });
    };
    let scratch = || Target::Scratch("sweep.out".into());
    for w in sweep_workloads(tier) {
        // fault-free baseline
        push(&w, scratch(), Pre::Absent, PlanSpec::default(), None, &mut runs);
        // create-time faults
        for e in OPEN_ERRNOS {
            push(&w, scratch(), Pre::Absent, PlanSpec { open: vec![(0, OpenFault::Hard(e))], ..Default::default() }, None, &mut runs);
        }
        for k in 1..=3u32 {
            push(
                &w,
                scratch(),
                Pre::Absent,
                PlanSpec { open: (0..k).map(|i| (i, OpenFault::Eintr)).collect(), ..Default::default() },
                None,
                &mut runs,
            );
        }
        push(
            &w,
            scratch(),
            Pre::Absent,
            PlanSpec { open: vec![(0, OpenFault::Eintr), (1, OpenFault::Hard(libc::ENOSPC))], ..Default::default() },
            None,
            &mut runs,
        );
        // an implementation that tries again: the second and third create fail too
        for e in [libc::ENOSPC, libc::EACCES, libc::EIO] {
            push(
                &w,
                scratch(),
                Pre::Longer(17),
                PlanSpec { open: vec![(0, OpenFault::Hard(e)), (1, OpenFault::Hard(e)), (2, OpenFault::Hard(libc::EIO))], ..Default::default() },
                None,
                &mut runs,
            );
        }
        // write-time faults at every reached call index, with and without a dribbling device
        let chunkings: Vec<(Option<ChunkSpec>, u32)> = if tier == Tier::Thorough {
            vec![(None, 1), (Some(ChunkSpec::Parts(3)), 3), (Some(ChunkSpec::Parts(7)), 7)]
        } else {
            vec![(None, 1), (Some(ChunkSpec::Parts(3)), 3)]
        };
        for (chunk, nwrites) in chunkings {
            // one index beyond the last reached call: the fault must not be delivered and the call must succeed
            for k in 0..=nwrites {
                let base = |write: Vec<(u32, WriteFault)>| PlanSpec { write, chunk: chunk.clone(), ..Default::default() };
                for s in [ShortSpec::One, ShortSpec::Half, ShortSpec::AllButOne] {
                    push(&w, scratch(), Pre::Absent, base(vec![(k, WriteFault::Short(s))]), None, &mut runs);
                }
                push(&w, scratch(), Pre::Absent, base(vec![(k, WriteFault::Eintr)]), None, &mut runs);
                push(
                    &w,
                    scratch(),
                    Pre::Absent,
                    base(vec![(k, WriteFault::Eintr), (k + 1, WriteFault::Eintr), (k + 2, WriteFault::Eintr)]),
                    None,
                    &mut runs,
                );
                for e in WRITE_ERRNOS {
                    push(&w, scratch(), Pre::Absent, base(vec![(k, WriteFault::Hard(e))]), None, &mut runs);
                }
                push(&w, scratch(), Pre::Absent, base(vec![(k, WriteFault::Zero)]), None, &mut runs);
                // two and three hard failures in a row (retry logic meets them all)
                push(&w, scratch(), Pre::Absent, base(vec![(k, WriteFault::Hard(libc::EIO)), (k + 1, WriteFault::Hard(libc::EIO))]), None, &mut runs);
                push(
                    &w,
                    scratch(),
                    Pre::Longer(17),
                    base(vec![(k, WriteFault::Hard(libc::EAGAIN)), (k + 1, WriteFault::Hard(libc::ENOSPC)), (k + 2, WriteFault::Hard(libc::ENOSPC))]),
                    None,
                    &mut runs,
                );
                // torn: part of the buffer accepted, then the device fails (persistently or transiently)
                for e in WRITE_ERRNOS {
                    push(
                        &w,
                        scratch(),
                        Pre::Absent,
                        base(vec![(k, WriteFault::Short(ShortSpec::Half)), (k + 1, WriteFault::Hard(e))]),
                        None,
                        &mut runs,
                    );
                }
                // a transient error before anything was accepted, and a zero return after partial progress
                push(
                    &w,
                    scratch(),
                    Pre::Absent,
                    base(vec![(k, WriteFault::Short(ShortSpec::One)), (k + 1, WriteFault::Zero)]),
                    None,
                    &mut runs,
                );
                push(
                    &w,
                    scratch(),
                    Pre::Longer(4096),
                    base(vec![(k, WriteFault::Short(ShortSpec::AllButOne)), (k + 1, WriteFault::Hard(libc::EIO))]),
                    None,
                    &mut runs,
                );
            }
            for b in [Pos::Abs(0), Pos::Abs(1), Pos::Permille(500), Pos::LenMinus(1), Pos::LenPlus(0), Pos::LenPlus(1)] {
                push(
                    &w,
                    scratch(),
                    Pre::Absent,
                    PlanSpec { disk_full: Some(b), chunk: chunk.clone(), ..Default::default() },
                    None,
                    &mut runs,
                );
            }
        }
        for e in [libc::EIO, libc::EINTR] {
            push(&w, scratch(), Pre::Absent, PlanSpec { close_err: Some(e), ..Default::default() }, None, &mut runs);
        }
        // rename/ftruncate faults: delivered only to implementations that use them
        for e in [libc::EXDEV, libc::EACCES, libc::ENOSPC, libc::EIO] {
            push(&w, scratch(), Pre::Longer(17), PlanSpec { meta_err: Some(e), ..Default::default() }, None, &mut runs);
        }
        // pre-states, alone and under one hard fault
        for pre in [
            Pre::Shorter,
            Pre::Longer(1),
            Pre::Longer(4096),
            Pre::Identical,
            Pre::Garbage,
            Pre::GarbageKeepMtime,
            Pre::Other(0),
            Pre::Other(100_000),
            Pre::SymlinkToFile(0),
            Pre::SymlinkToFile(5000),
            Pre::DanglingSymlink,
            Pre::HardLinkTwin,
        ] {
            push(&w, scratch(), pre.clone(), PlanSpec::default(), None, &mut runs);
            push(
                &w,
                scratch(),
                pre.clone(),
                PlanSpec { disk_full: Some(Pos::Permille(500)), ..Default::default() },
                None,
                &mut runs,
            );
            push(
                &w,
                scratch(),
                pre.clone(),
                PlanSpec { open: vec![(0, OpenFault::Hard(libc::EACCES))], ..Default::default() },
                None,
                &mut runs,
            );
        }
        // real-kernel faults, no stub involved in the failure
        for t in [
            Target::MissingDir("x.out".into()),
            Target::IsDir,
            Target::NotDir,
            Target::LongName,
            Target::Nul,
            Target::Empty,
            Target::DevFull,
            Target::SymlinkToDir,
            Target::SymlinkLoop,
        ] {
            push(&w, t, Pre::Absent, PlanSpec::default(), None, &mut runs);
        }
        for i in 0..ODD_PATHS.len() {
            push(&w, Target::Odd(i as u8), Pre::Absent, PlanSpec::default(), None, &mut runs);
        }
        for l in [Pos::Abs(0), Pos::Abs(1), Pos::Abs(4096), Pos::Permille(500), Pos::LenMinus(1), Pos::LenPlus(0)] {
            push(&w, scratch(), Pre::Absent, PlanSpec::default(), Some(l.clone()), &mut runs);
            push(&w, scratch(), Pre::Longer(17), PlanSpec::default(), Some(l), &mut runs);
        }
        push(&w, Target::Relative("rel.out".into()), Pre::Absent, PlanSpec::default(), None, &mut runs);
        // a destination outside the current directory, plain and behind relative symbolic links
        for pre in [Pre::Absent, Pre::Longer(17), Pre::RelSymlink { dangling: false }, Pre::RelSymlink { dangling: true }, Pre::SymlinkToFile(100), Pre::DanglingSymlink] {
            push(&w, Target::Sub("sub.out".into()), pre, PlanSpec::default(), None, &mut runs);
        }
        // debris next to the target: every name pattern, as a longer file, a short file and a directory
        let mk = |w: &Workload, plan: PlanSpec, litter: Vec<Litter>, crash_at: Option<u32>| IoOp {
            kind: w.kind,
            qr: w.qr.clone(),
            setters: w.setters.clone(),
            target: scratch(),
            pre: Pre::Absent,
            plan,
            via_convert: false,
            pad_to: None,
            rlimit: None,
            litter,
            cb_panic_at: None,
            cwd: 0,
            crash_at,
        };
        let mut push_ops = |ops: Vec<IoOp>, runs: &mut Vec<IoRun>| {
            let i = runs.len() as u64;
            runs.push(IoRun { index: SWEEP_BASE + i, seed: i, class: "sweep".into(), ops });
        };
        for name in LITTER_NAMES {
            for (longer_by, is_dir) in [(Some(1000usize), false), (None, false), (None, true)] {
                let l = Litter { name: name.to_string(), longer_by, is_dir };
                push_ops(vec![mk(&w, PlanSpec::default(), vec![l.clone()], None)], &mut runs);
                if longer_by.is_some() {
                    push_ops(
                        vec![mk(&w, PlanSpec { disk_full: Some(Pos::Permille(500)), ..Default::default() }, vec![l], None)],
                        &mut runs,
                    );
                }
            }
        }
        // the same relative destination from two working directories, in both orders
        for (a, b) in [(0u8, 1u8), (1, 0)] {
            let mut o1 = mk(&w, PlanSpec::default(), vec![], None);
            o1.target = Target::Relative("rel-cwd.out".into());
            o1.cwd = a;
            let mut o2 = o1.clone();
            o2.cwd = b;
            let mut o3 = o1.clone();
            o3.pre = Pre::Garbage;
            push_ops(vec![o1, o2, o3], &mut runs);
        }
        // a relative destination while the working directory has been removed
        {
            let mut o = mk(&w, PlanSpec::default(), vec![], None);
            o.target = Target::Relative("rel-gone.out".into());
            o.cwd = 2;
            push_ops(vec![o], &mut runs);
        }
        // crash and restart: the writer dies right before each of its system calls (plain and
        // dribbling device); afterwards a clean - smaller or equal - export goes to the same path
        let small = Workload { kind: w.kind, qr: QrCfg::new(b"https://example.com/".to_vec()), setters: vec![] };
        for chunk in [None, Some(ChunkSpec::Parts(3))] {
            let last = if chunk.is_some() { 6 } else { 4 };
            for k in 0..=last {
                let dying = mk(&w, PlanSpec { chunk: chunk.clone(), ..Default::default() }, vec![], Some(k));
                push_ops(vec![dying.clone(), mk(&small, PlanSpec::default(), vec![], None)], &mut runs);
                push_ops(vec![dying, mk(&w, PlanSpec::default(), vec![], None)], &mut runs);
            }
        }
    }
    runs
}

// ---------------------------------------------------------------------------
// Worker process
// ---------------------------------------------------------------------------

fn worker_prelude() -> Ctx {
    unsafe {
        libc::signal(libc::SIGXFSZ, libc::SIG_IGN);
    }
    crate::quiet_panics();
    let scratch = report::make_scratch("c19w");
    if let Err(e) = shim::interposition_works(&scratch) {
        eprintln!("harness error: libc interposition self-test failed: {}", e);
        let _ = std::fs::remove_dir_all(&scratch);
        std::process::exit(2);
    }
    Ctx { scratch }
}

/// `fqsim c19-worker --seed S --start A --stride W --count N [--sweep quick|thorough]`
pub fn worker_main(args: &[String]) -> i32 {
    let ctx = worker_prelude();
    let seed = arg_u64(args, "--seed", report::DEFAULT_SEED);
    let start = arg_u64(args, "--start", 0);
    let stride = arg_u64(args, "--stride", 1).max(1);
    let count = arg_u64(args, "--count", 0);
    let max_secs = arg_u64(args, "--max-secs", 3600);
    let t0 = Instant::now();
    let mut stats = Stats::default();
    let mut violations: BTreeMap<String, Value> = BTreeMap::new();
    let out = std::io::stdout();
    use std::io::Write;
    let mut out = out; // not locked across runs: code under test may print

    start_watchdog();
    let mut handle = |run: &IoRun, stats: &mut Stats, violations: &mut BTreeMap<String, Value>, out: &mut std::io::Stdout| {
        // announced first: if this process dies or gets stuck inside the run, the driver knows which
        let _ = writeln!(out, "\n{{\"begin\":{}}}", run.index);
        beat(run.index);
        let (reports, h) = exec_run(&ctx, run, stats);
        beat(u64::MAX);
        let _ = writeln!(out, "\n{}", run_hash_line(run.index, h));
        if let Some(v) = reports.iter().find_map(|r| r.violation.clone()) {
            let class = v.class();
            stats.bump(&format!("violation:{}", class), 1);
            // keep the first few of each class (different details may map to different known findings)
            let key = format!("{}#{}", class, violations.keys().filter(|k| k.starts_with(&class)).count());
            if violations.keys().filter(|k| k.starts_with(&class)).count() < 3 {
                violations.insert(key, json!({"violation": v, "run": run, "reports": reports}));
            }
        }
    };

    if let Some(t) = arg_value(args, "--sweep").and_then(Tier::parse) {
        let sweep = build_sweep(t);
        let mut n = 0u64;
        for (i, run) in sweep.iter().enumerate() {
            if (i as u64) % stride == start % stride {
                handle(run, &mut stats, &mut violations, &mut out);
                n += 1;
            }
        }
        stats.bump("sweep:runs", n);
        stats.bump("sweep:total_in_list", if start % stride == 0 { sweep.len() as u64 } else { 0 });
    }
    let mut done = 0u64;
    let mut truncated = false;
    for j in 0..count {
        if j % 64 == 0 && t0.elapsed().as_secs() >= max_secs {
            truncated = true;
            break;
        }
        let idx = start + j * stride;
        let run = gen_run(seed, idx);
        handle(&run, &mut stats, &mut violations, &mut out);
        done += 1;
    }
    stats.bump("random:runs", done);
    // concurrent-caller runs (same directory, different files, baton-scheduled)
    let conc_count = arg_u64(args, "--conc-count", 0);
    for j in 0..conc_count {
        if j % 64 == 0 && t0.elapsed().as_secs() >= max_secs {
            truncated = true;
            break;
        }
        let jj = start + j * stride;
        let run = super::conc::gen_conc_run(seed, jj);
        let _ = writeln!(out, "\n{{\"begin\":{}}}", run.index);
        let rep = super::conc::exec_conc(&ctx, &run, &mut stats);
        if rep.hung {
            let _ = writeln!(out, "\n{{\"hang\":{}}}", run.index);
            stats.bump("note:conc_run_hung", 1);
            let _ = writeln!(out, "\n{}", json!({"stats": stats}));
            let _ = out.flush();
            std::process::exit(3);
        }
        let _ = writeln!(out, "\n{}", run_hash_line(run.index, rep.hash));
        if let Some(v) = rep.violation {
            let class = format!("conc:{}", v.class());
            stats.bump(&format!("violation:{}", class), 1);
            let n = violations.keys().filter(|k| k.starts_with(&class)).count();
            if n < 3 {
                violations.insert(format!("{}#{}", class, n), json!({"violation": v, "conc_run": run, "task": rep.task}));
            }
        }
    }
    if truncated {
        stats.bump("note:worker_stopped_by_time_cap", 1);
    }
    for (_, v) in violations {
        let _ = writeln!(out, "\n{}", json!({"found": v}));
    }
    let _ = writeln!(out, "\n{}", json!({"stats": stats}));
    let _ = std::fs::remove_dir_all(&ctx.scratch);
    0
}

// A call that never returns must not stall the check: a watchdog thread ends the process with
// code 4 when one run has been executing for longer than this.
const STUCK_SECS: u64 = 90;
static BEAT_RUN: std::sync::atomic::AtomicU64 = std::sync::atomic::AtomicU64::new(u64::MAX);
static BEAT_AT: std::sync::atomic::AtomicU64 = std::sync::atomic::AtomicU64::new(0);

fn now_secs() -> u64 {
    std::time::SystemTime::now().duration_since(std::time::UNIX_EPOCH).map(|d| d.as_secs()).unwrap_or(0)
}

fn beat(run: u64) {
    use std::sync::atomic::Ordering::SeqCst;
    BEAT_AT.store(now_secs(), SeqCst);
    BEAT_RUN.store(run, SeqCst);
}

fn start_watchdog() {
    use std::sync::atomic::Ordering::SeqCst;
    let _ = std::thread::Builder::new().name("watchdog".into()).spawn(|| loop {
        std::thread::sleep(std::time::Duration::from_secs(2));
        let run = BEAT_RUN.load(SeqCst);
        if run != u64::MAX && now_secs().saturating_sub(BEAT_AT.load(SeqCst)) > STUCK_SECS {
            use std::io::Write;
            let _ = writeln!(std::io::stdout(), "{{\"stuck\":{}}}", run);
            unsafe { libc::_exit(4) }
        }
    });
}

/// What `exec_fresh` reports when the process running a run died or got stuck: the call neither
/// returned an error value nor anything else.
fn death_violation(run: &IoRun, code: Option<i32>, signal: Option<i32>) -> Violation {
    let last = run.ops.len().saturating_sub(1);
    let kind = run.ops.last().map(|o| o.kind).unwrap_or(Kind::Svg);
    let (inv, how) = if code == Some(4) {
        ("O1_never_returned", format!("a to_file call did not return within {} s", STUCK_SECS))
    } else {
        ("O1_process_died", format!("the process running to_file was killed (exit code {:?}, signal {:?}; memory is capped, so unbounded allocation ends in abort)", code, signal))
    };
    Violation { invariant: inv.into(), op_index: last, kind, detail: format!("{} ; run of {} operation(s)", how, run.ops.len()) }
}

/// `fqsim c19-exec <replay-or-run.json>`: executes the run(s) in this fresh process.
/// Prints `{"violation":..}` or `{"violation":null}`; exit 1 iff a violation occurred.
pub fn exec_main(args: &[String]) -> i32 {
    let path = match args.first() {
        Some(p) => p,
        None => {
            eprintln!("usage: fqsim c19-exec <file>");
            return 2;
        }
    };
    let text = match std::fs::read_to_string(path) {
        Ok(t) => t,
        Err(e) => {
            eprintln!("harness error: cannot read {}: {}", path, e);
            return 2;
        }
    };
    let v: Value = match serde_json::from_str(&text) {
        Ok(v) => v,
        Err(e) => {
            eprintln!("harness error: {} does not parse: {}", path, e);
            return 2;
        }
    };
    if v.get("conc_run").is_some() {
        let run: super::conc::ConcRun = match serde_json::from_value(v["conc_run"].clone()) {
            Ok(r) => r,
            Err(e) => {
                eprintln!("harness error: bad conc_run in {}: {}", path, e);
                return 2;
            }
        };
        let ctx = worker_prelude();
        let mut stats = Stats::default();
        let rep = super::conc::exec_conc(&ctx, &run, &mut stats);
        if rep.hung {
            println!("\n{}", json!({"violation": null, "hang": run.index}));
            std::process::exit(3);
        }
        let _ = std::fs::remove_dir_all(&ctx.scratch);
        println!("\n{}", json!({"violation": rep.violation, "hash": format!("{:016x}", rep.hash), "decisions": rep.decisions}));
        return if rep.violation.is_some() { 1 } else { 0 };
    }
    let run_v = if v.get("run").is_some() { v["run"].clone() } else { v.clone() };
    let run: IoRun = match serde_json::from_value(run_v) {
        Ok(r) => r,
        Err(e) => {
            eprintln!("harness error: no run in {}: {}", path, e);
            return 2;
        }
    };
    let ctx = worker_prelude();
    let mut stats = Stats::default();
    start_watchdog();
    beat(run.index);
    let (reports, h) = exec_run(&ctx, &run, &mut stats);
    beat(u64::MAX);
    let _ = std::fs::remove_dir_all(&ctx.scratch);
    let viol = reports.iter().find_map(|r| r.violation.clone());
    println!("\n{}", json!({"violation": viol, "hash": format!("{:016x}", h), "reports": reports}));
    if viol.is_some() {
        1
    } else {
        0
    }
}

// ---------------------------------------------------------------------------
// Driver
// ---------------------------------------------------------------------------

pub struct Budget {
    pub random_runs: u64,
    pub conc_runs: u64,
    pub max_secs: u64,
}

pub fn budget(tier: Tier) -> Budget {
    let scale = std::env::var("VERIF_SCALE").ok().and_then(|s| s.parse::<f64>().ok()).unwrap_or(1.0);
    match tier {
        Tier::Quick => Budget { random_runs: (24_000.0 * scale) as u64, conc_runs: (6_000.0 * scale) as u64, max_secs: 120 },
        Tier::Thorough => Budget { random_runs: (600_000.0 * scale) as u64, conc_runs: (150_000.0 * scale) as u64, max_secs: 1500 },
    }
}

/// Runs `run` in a fresh process; returns the violation it produced, if any.
pub fn exec_fresh(run: &IoRun) -> Result<Option<Violation>, String> {
    let dir = report::make_scratch("c19x");
    let f = dir.join(format!("cand-{}.json", std::process::id()));
    std::fs::write(&f, serde_json::to_string(run).unwrap()).map_err(|e| e.to_string())?;
    let outs = pool::run_children(&[vec!["c19-exec".into(), f.to_str().unwrap().to_string()]]);
    let _ = std::fs::remove_dir_all(&dir);
    let o = &outs[0];
    match o.code {
        Some(0) | Some(1) => {
            let line = o.lines.iter().rev().find(|l| l.starts_with('{')).ok_or("no output from exec")?;
            let v: Value = serde_json::from_str(line).map_err(|e| e.to_string())?;
            if v["violation"].is_null() {
                Ok(None)
            } else {
                serde_json::from_value(v["violation"].clone()).map(Some).map_err(|e| e.to_string())
            }
        }
        Some(4) => Ok(Some(death_violation(run, o.code, o.signal))),
        None if o.signal.is_some() => Ok(Some(death_violation(run, o.code, o.signal))),
        other => Err(format!("exec process failed: code={:?} signal={:?} stderr={}", other, o.signal, o.stderr)),
    }
}

/// Runs a concurrent-caller run in a fresh process.
pub fn exec_fresh_conc(run: &super::conc::ConcRun) -> Result<Option<Violation>, String> {
    let dir = report::make_scratch("c19y");
    let f = dir.join("cand.json");
    std::fs::write(&f, serde_json::to_string(&json!({"conc_run": run})).unwrap()).map_err(|e| e.to_string())?;
    let outs = pool::run_children(&[vec!["c19-exec".into(), f.to_str().unwrap().to_string()]]);
    let _ = std::fs::remove_dir_all(&dir);
    let o = &outs[0];
    match o.code {
        Some(0) | Some(1) => {
            let line = o.lines.iter().rev().find(|l| l.starts_with('{')).ok_or("no output from exec")?;
            let v: Value = serde_json::from_str(line).map_err(|e| e.to_string())?;
            if v["violation"].is_null() {
                Ok(None)
            } else {
                serde_json::from_value(v["violation"].clone()).map(Some).map_err(|e| e.to_string())
            }
        }
        other => Err(format!("exec process failed: code={:?} signal={:?} stderr={}", other, o.signal, o.stderr)),
    }
}

pub fn check_main(tier: Tier) -> i32 {
    let t0 = Instant::now();
    let seed = report::verif_seed();
    let w = report::workers();
    let b = budget(tier);
    println!("C19 {} VERIF_SEED={} workers={} random_runs={}", tier.name(), seed, w, b.random_runs);

    let per = (b.random_runs + w as u64 - 1) / w as u64;
    let argvs: Vec<Vec<String>> = (0..w)
        .map(|i| {
            vec![
                "c19-worker".to_string(),
                "--seed".into(),
                seed.to_string(),
                "--start".into(),
                i.to_string(),
                "--stride".into(),
                w.to_string(),
                "--count".into(),
                per.to_string(),
                "--sweep".into(),
                tier.name().into(),
                "--max-secs".into(),
                b.max_secs.to_string(),
            ]
        })
        .collect();
    let mut outs = pool::run_children(&argvs);

    // concurrent-caller runs: separate workers, alternating between the facade and the plain
    // harness variant (under the facade a lock held by a descheduled caller is a "blocked"
    // scheduling point; under the plain variant it hangs the run, which the watchdog ends).
    let variants = pool::variants();
    let per_conc = (b.conc_runs + w as u64 - 1) / w as u64;
    let mut pending: Vec<(usize, u64, u64)> = if per_conc > 0 { (0..w).map(|i| (i, i as u64, per_conc)).collect() } else { vec![] };
    let mut hung_runs = 0u64;
    for _round in 0..4 {
        if pending.is_empty() {
            break;
        }
        let cargs: Vec<Vec<String>> = pending
            .iter()
            .map(|(_, start, count)| {
                vec![
                    "c19-worker".to_string(),
                    "--seed".into(),
                    seed.to_string(),
                    "--start".into(),
                    start.to_string(),
                    "--stride".into(),
                    w.to_string(),
                    "--count".into(),
                    "0".into(),
                    "--conc-count".into(),
                    count.to_string(),
                    "--max-secs".into(),
                    b.max_secs.to_string(),
                ]
            })
            .collect();
        let exes: Vec<std::path::PathBuf> = pending.iter().map(|(i, _, _)| variants[i % variants.len()].1.clone()).collect();
        let round = pool::run_children_exes(&exes, &cargs, w);
        let mut next = Vec::new();
        for ((i, start, count), mut o) in pending.iter().cloned().zip(round.into_iter()) {
            if o.code == Some(3) {
                // a hung run (a blocking primitive the simulator does not own) ends the worker early;
                // what it did until then counts, the hang is recorded, the worker is restarted after it
                o.code = Some(0);
                hung_runs += 1;
                if let Some(h) = o.lines.iter().find(|l| l.starts_with("{\"hang\"")).and_then(|l| serde_json::from_str::<Value>(l).ok()).and_then(|v| v["hang"].as_u64()) {
                    let jj = h - super::conc::CONC_BASE;
                    let done = (jj - start) / w as u64 + 1;
                    if count > done {
                        next.push((i, jj + w as u64, count - done));
                    }
                }
            }
            outs.push(o);
        }
        pending = next;
    }

    let mut stats = Stats::default();
    let mut found: Vec<Value> = Vec::new();
    let mut run_hash: u64 = 0;
    let mut n_hashes = 0u64;
    let mut died_workers = 0u64;
    for (i, o) in outs.iter().enumerate() {
        let mut worker_died = false;
        if o.code != Some(0) {
            // Killed (memory cap, abort, stack overflow) or stuck (code 4) inside a run: the run
            // announced last is re-executed in fresh processes; if it does the same there, twice,
            // that is the crate's doing and a violation. Anything else is a harness error.
            let begun = o.lines.iter().rev().find(|l| l.starts_with("{\"begin\"")).and_then(|l| serde_json::from_str::<Value>(l).ok()).and_then(|v| v["begin"].as_u64());
            let suspect: Option<IoRun> = match begun {
                Some(idx) if idx >= super::conc::CONC_BASE => None,
                Some(idx) if idx >= SWEEP_BASE => build_sweep(tier).into_iter().find(|r| r.index == idx),
                Some(idx) => Some(gen_run(seed, idx)),
                None => None,
            };
            let abnormal = o.code == Some(4) || o.signal.is_some();
            let mut confirmed = None;
            if let (true, Some(run)) = (abnormal, suspect.as_ref()) {
                if let (Ok(Some(v1)), Ok(Some(v2))) = (exec_fresh(run), exec_fresh(run)) {
                    if v1.invariant.starts_with("O1_") && v1.class() == v2.class() && (v1.invariant == "O1_process_died" || v1.invariant == "O1_never_returned") {
                        confirmed = Some(v1);
                    }
                }
            }
            match (confirmed, suspect) {
                (Some(v), Some(run)) => {
                    found.push(json!({"violation": v, "run": run, "reports": []}));
                    died_workers += 1;
                    worker_died = true;
                }
                _ => {
                    eprintln!(
                        "harness error: C19 worker {} ended abnormally (code={:?} signal={:?}); stderr:\n{}",
                        i, o.code, o.signal, o.stderr
                    );
                    return 2;
                }
            }
        }
        let mut got_stats = false;
        for l in &o.lines {
            if l.starts_with("{\"run\"") {
                if let Ok(v) = serde_json::from_str::<Value>(l) {
                    let h = u64::from_str_radix(v["h"].as_str().unwrap_or("0"), 16).unwrap_or(0);
                    run_hash ^= crate::rng::mix(v["run"].as_u64().unwrap_or(0), h);
                    n_hashes += 1;
                }
            } else if l.starts_with("{\"found\"") {
                if let Ok(v) = serde_json::from_str::<Value>(l) {
                    found.push(v["found"].clone());
                }
            } else if l.starts_with("{\"stats\"") {
                if let Ok(v) = serde_json::from_str::<Value>(l) {
                    if let Ok(s) = serde_json::from_value::<Stats>(v["stats"].clone()) {
                        stats.merge(&s);
                        got_stats = true;
                    }
                }
            }
        }
        if !got_stats && !worker_died {
            eprintln!("harness error: C19 worker {} produced no stats; stderr:\n{}", i, o.stderr);
            return 2;
        }
    }
    stats.bump("note:workers_that_died_inside_a_run", died_workers);

    // --- violations: confirm in a fresh process, minimise, classify -----------
    let known = KnownFindings::load();
    let mut new_violations = 0u64;
    let mut known_hits: BTreeMap<String, u64> = BTreeMap::new();
    let mut replay_attempted = 0u64;
    let mut replay_reproduced = 0u64;
    let mut reported_classes: BTreeMap<String, String> = BTreeMap::new();
    found.sort_by_key(|f| f["run"]["index"].as_u64().or(f["conc_run"]["index"].as_u64()).unwrap_or(0));
    for f in &found {
        let v: Violation = match serde_json::from_value(f["violation"].clone()) {
            Ok(v) => v,
            Err(_) => continue,
        };
        if f.get("conc_run").is_some() {
            let Ok(crun) = serde_json::from_value::<super::conc::ConcRun>(f["conc_run"].clone()) else { continue };
            let class = format!("conc:{}", v.class());
            if let Some(k) = known.matches("C19", &class, &v.detail) {
                *known_hits.entry(k.what.clone()).or_insert(0) += 1;
                continue;
            }
            if reported_classes.contains_key(&class) {
                continue;
            }
            replay_attempted += 1;
            let confirmed = matches!(exec_fresh_conc(&crun), Ok(Some(ref c)) if c.class() == v.class());
            if confirmed {
                replay_reproduced += 1;
            }
            let (min_run, min_v, info) = if confirmed {
                super::conc::minimise_conc(&crun, &v)
            } else {
                (crun.clone(), v.clone(), json!({"note": "not reproduced in a fresh process; reported unminimised"}))
            };
            let replay = json!({
                "property": "C19",
                "engine": "fqsim-c19-concurrent",
                "verif_seed": seed,
                "run_index": crun.index,
                "conc_run": min_run,
                "violation": min_v,
                "minimised": info,
                "reproduced_in_fresh_process": confirmed,
                "replay_cmd": "./check C19 --replay <this file>",
            });
            let name = format!("conc-{}-run{}", v.class().replace(':', "-"), crun.index);
            let path = report::write_replay("C19", &name, &replay).unwrap_or_else(|e| {
                eprintln!("harness error: cannot write replay: {}", e);
                std::process::exit(2);
            });
            println!("violation (concurrent callers): {} — {}", min_v.invariant, min_v.detail);
            println!("VIOLATION property=C19 replay={}", path.display());
            reported_classes.insert(class, path.display().to_string());
            new_violations += 1;
            continue;
        }
        let run: IoRun = match serde_json::from_value(f["run"].clone()) {
            Ok(r) => r,
            Err(_) => continue,
        };
        if let Some(k) = known.matches("C19", &v.class(), &v.detail) {
            *known_hits.entry(k.what.clone()).or_insert(0) += 1;
            continue;
        }
        if reported_classes.contains_key(&v.class()) {
            continue;
        }
        replay_attempted += 1;
        let confirmed = matches!(exec_fresh(&run), Ok(Some(ref c)) if c.class() == v.class());
        if confirmed {
            replay_reproduced += 1;
        }
        let (min_run, min_v, shrink_info) = if confirmed {
            super::shrink::minimise(&run, &v)
        } else {
            (run.clone(), v.clone(), json!({"note": "not reproduced in a fresh process; reported unminimised"}))
        };
        let replay = json!({
            "property": "C19",
            "engine": "fqsim-c19",
            "verif_seed": seed,
            "run_index": run.index,
            "run": min_run,
            "violation": min_v,
            "original_ops": run.ops.len(),
            "minimised": shrink_info,
            "reproduced_in_fresh_process": confirmed,
            "replay_cmd": "./check C19 --replay <this file>",
        });
        let name = format!("{}-run{}", v.class().replace(':', "-"), run.index);
        let path = report::write_replay("C19", &name, &replay).unwrap_or_else(|e| {
            eprintln!("harness error: cannot write replay: {}", e);
            std::process::exit(2);
        });
        println!("violation: {} — {}", min_v.invariant, min_v.detail);
        println!("VIOLATION property=C19 replay={}", path.display());
        reported_classes.insert(v.class(), path.display().to_string());
        new_violations += 1;
    }
    for (what, n) in &known_hits {
        println!("KNOWN-FINDING: property=C19 {} (seen {}x)", what, n);
    }

    // --- reach self-check: a fault kind that never fired means the workload is broken -----
    let must_fire = [
        "fired:open_hard",
        "fired:open_eintr",
        "fired:write_short",
        "fired:write_eintr",
        "fired:write_hard",
        "fired:write_zero",
        "fired:disk_full_enospc",
        "fired:disk_full_short",
        "fired:dribble_short",
        "fired:close_err",
        "fired:kernel_missing_dir",
        "fired:kernel_is_dir",
        "fired:kernel_not_dir",
        "fired:kernel_long_name",
        "fired:kernel_nul",
        "fired:kernel_empty",
        "fired:kernel_dev_full",
        "fired:kernel_rlimit_fsize",
        "probe:ok_under_benign_faults",
        "probe:ok_over_longer_preexisting_file",
        "probe:err_after_partial_write",
        "probe:torn_write_real_kernel",
    ];
    let stuck: Vec<&str> = must_fire.iter().copied().filter(|k| stats.counters.get(*k).copied().unwrap_or(0) == 0).collect();
    if stats.syscalls == 0 || stats.result_ok + stats.result_err + stats.result_panic == 0 {
        eprintln!("harness error: the syscall seam saw no call at all: every C19 run would be vacuous");
        return 2;
    }
    if !stuck.is_empty() {
        eprintln!("note: reach gaps in this run (recorded in the evidence file): {:?}", stuck);
    }

    let wall = t0.elapsed().as_secs_f64();
    let sweep_total = stats.counters.get("sweep:total_in_list").copied().unwrap_or(0);
    let sweep_runs = stats.counters.get("sweep:runs").copied().unwrap_or(0);
    let fired: BTreeMap<&String, &u64> = stats.counters.iter().filter(|(k, _)| k.starts_with("fired:")).collect();
    let probes: BTreeMap<&String, &u64> = stats.counters.iter().filter(|(k, _)| k.starts_with("probe:") || k.starts_with("note:") || k.starts_with("pre:") || k.starts_with("skip:")).collect();
    let coverage = json!({
        "evaluations": stats.ops,
        "distinct_nontrivial": stats.tuples.len(),
        "rule": "one evaluation = one to_file call executed against the real crate under a fault plan; a case is non-trivial if at least one fault (injected or real-kernel) was actually delivered or the target pre-existed; distinct = distinct tuples (renderer, target class, pre-state, first hard fault syscall#index=errno, benign-fault signature, output-size class, rlimit bites, result class)",
        "samples": stats.samples,
        "runs": stats.runs,
        "runs_per_hour": (stats.runs as f64 / wall * 3600.0) as u64,
        "seeds": {"verif_seed": seed, "random_run_indices": [0, per * w as u64 - 1], "sweep_run_indices": [SWEEP_BASE, SWEEP_BASE + sweep_total.saturating_sub(1)]},
        "simulated_time": "n/a - the crate has no clock; progress is counted in system calls",
        "syscalls_simulated": stats.syscalls,
        "bytes_accepted_by_simulated_device": stats.bytes_written,
        "exhaustive_single_fault_sweep": {"runs_in_list": sweep_total, "runs_executed": sweep_runs, "complete": sweep_total == sweep_runs},
        "faults_fired": fired,
        "probes": probes,
        "reach_gaps": stuck,
        "results": {"ok": stats.result_ok, "err": stats.result_err, "panic": stats.result_panic, "ops_skipped_not_c19": stats.ops_skipped},
        "replays": {"attempted": replay_attempted, "reproduced": replay_reproduced},
        "known_findings_seen": known_hits,
        "combined_run_hash": format!("{:016x}", run_hash),
        "runs_hashed": n_hashes,
        "real_vs_stub": {
            "real": ["fast_qr to_file/to_str/to_bytes and error conversions", "resvg/usvg/tiny-skia/png", "std::fs, std::io::Write::write_all", "the kernel file for every accepted byte", "real-kernel failures: ENOENT/EISDIR/ENOTDIR/ENAMETOOLONG/ELOOP, /dev/full, RLIMIT_FSIZE, a removed working directory, symbolic and hard links, odd directory paths", "the crashed writer of crash-and-restart is a real separate process killed with _exit", "panics inside to_file are real ones (a failing user callback, the raster path on unusable options)"],
            "stub": ["only the thin libc entry points, defined by the harness binary and passing accepted bytes through to the kernel: open/open64/openat/creat, write/writev/pwrite/pwritev, copy_file_range/sendfile, close, fsync/fdatasync, rename/renameat/renameat2, link/linkat/symlink, unlink/unlinkat, ftruncate, fallocate/posix_fallocate"]
        },
        "concurrent_callers": {
            "runs": stats.counters.get("conc:runs").copied().unwrap_or(0),
            "caller_threads": stats.counters.get("conc:tasks").copied().unwrap_or(0),
            "context_switches": stats.counters.get("conc:context_switches").copied().unwrap_or(0),
            "scheduling_points_at_syscalls": stats.counters.get("conc:syscall_scheduling_points").copied().unwrap_or(0),
            "switches_at_syscalls": stats.counters.get("conc:switches_at_syscalls").copied().unwrap_or(0),
            "hung_runs_skipped": hung_runs,
            "what": "2..4 caller threads write different files into one directory under the seeded baton scheduler; every tracked open/write/rename/close and every verif_point! is a scheduling point",
        },
        "workers": w,
    });
    let ev = report::base_evidence(
        "C19",
        tier,
        seed,
        "fault_enumeration",
        coverage,
        vec![
            "bytes the simulated device accepted are never corrupted afterwards (no lying disks)",
            "faults follow the descriptor: a file opened by a caller between arm and disarm meets that caller's plan on whichever thread writes to it; in single-caller runs files opened by helper threads are adopted",
            "Err is never an alarm; nothing is asserted about file content after Err, durability or error text",
        ],
        wall,
        new_violations,
    );
    if let Err(e) = report::write_evidence("C19", &ev) {
        eprintln!("harness error: cannot write evidence: {}", e);
        return 2;
    }
    println!(
        "C19 {}: {} runs, {} to_file calls, {} distinct fault situations, {} violations, {:.1}s",
        tier.name(),
        stats.runs,
        stats.ops,
        stats.tuples.len(),
        new_violations,
        wall
    );
    if new_violations > 0 {
        1
    } else {
        0
    }
}

/// `./check C19 --replay <file>`
pub fn replay_main(path: &str) -> i32 {
    let text = match std::fs::read_to_string(path) {
        Ok(t) => t,
        Err(e) => {
            eprintln!("harness error: cannot read {}: {}", path, e);
            return 2;
        }
    };
    let v: Value = match serde_json::from_str(&text) {
        Ok(v) => v,
        Err(e) => {
            eprintln!("harness error: {}", e);
            return 2;
        }
    };
    let recorded: Option<Violation> = serde_json::from_value(v["violation"].clone()).ok();
    let result = if v.get("conc_run").is_some() {
        match serde_json::from_value::<super::conc::ConcRun>(v["conc_run"].clone()) {
            Ok(r) => exec_fresh_conc(&r),
            Err(e) => Err(e.to_string()),
        }
    } else {
        match serde_json::from_value::<IoRun>(v["run"].clone()) {
            Ok(r) => exec_fresh(&r),
            Err(e) => Err(e.to_string()),
        }
    };
    match result {
        Ok(Some(got)) => {
            println!("replayed: {} — {}", got.invariant, got.detail);
            if let Some(r) = &recorded {
                println!("same class as recorded: {}", r.class() == got.class());
                println!("identical detail: {}", r.detail == got.detail);
            }
            println!("VIOLATION property=C19 replay={}", path);
            1
        }
        Ok(None) => {
            println!("replay did not produce a violation on this tree");
            0
        }
        Err(e) => {
            eprintln!("harness error: {}", e);
            2
        }
    }
}

#[allow(dead_code)]
pub fn unused(_: &[String]) -> bool {
    has_flag(&[], "")
}
