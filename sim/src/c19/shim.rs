//! The I/O seam for C19: this binary defines the libc entry points that Rust's
//! std (and tiny-skia through std) use to create and write files. A call made
//! while the calling thread's *world* is armed is subject to the fault plan;
//! every other call goes straight to the kernel through `syscall(2)`.
//!
//! Accepted bytes are passed through to the real file, so the "disk" is the
//! kernel's VFS and the oracle reads the real file back afterwards.

use std::cell::RefCell;

use libc::{c_char, c_int, c_long, c_uint, c_void, iovec, off_t, size_t, ssize_t};
use serde::{Deserialize, Serialize};

// ---------------------------------------------------------------------------
// Fault plan
// ---------------------------------------------------------------------------

#[derive(Clone, Debug, PartialEq, Eq, Serialize, Deserialize)]
pub enum OpenFault {
    /// fail with EINTR (std retries the open)
    Eintr,
    /// fail with this errno
    Hard(i32),
}

#[derive(Clone, Debug, PartialEq, Eq, Serialize, Deserialize)]
pub enum ShortSpec {
    One,
    Half,
    AllButOne,
    /// accept at most this many bytes
    AtMost(usize),
}

#[derive(Clone, Debug, PartialEq, Eq, Serialize, Deserialize)]
pub enum WriteFault {
    /// accept only part of the buffer (legal: write(2) may be short)
    Short(ShortSpec),
    /// fail with EINTR, nothing accepted (std retries)
    Eintr,
    /// fail with this errno, nothing accepted
    Hard(i32),
    /// return 0 for a non-empty buffer
    Zero,
}

#[derive(Clone, Debug, Default, PartialEq, Eq, Serialize, Deserialize)]
pub struct Plan {
    /// (index of the tracked open/creat call within the operation, fault)
    pub open: Vec<(u32, OpenFault)>,
    /// (index of the tracked write-like call within the operation, fault)
    pub write: Vec<(u32, WriteFault)>,
    /// device full after this many accepted bytes (cumulative over the operation)
    pub disk_full_at: Option<u64>,
    /// every write accepts at most this many bytes (benign "dribble")
    pub max_chunk: Option<usize>,
    /// errno returned by close() on a tracked descriptor (data already accepted stays)
    pub close_err: Option<i32>,
    /// errno returned by fsync()/fdatasync() on a tracked descriptor
    pub fsync_err: Option<i32>,
    /// errno returned by rename()/ftruncate()/unlink() while armed (hard fault)
    pub meta_err: Option<i32>,
    /// crash: the process is killed (`_exit`) right before its k-th tracked system call
    /// (opens for writing, writes, closes, syncs, renames/links/truncates). Only ever armed in a
    /// forked child, so that only what reached the file system survives.
    #[serde(default, skip_serializing_if = "Option::is_none")]
    pub kill_at: Option<u32>,
}

impl Plan {
    pub fn is_empty(&self) -> bool {
        *self == Plan::default()
    }
}

#[derive(Clone, Debug, Default, Serialize, Deserialize)]
pub struct Delivered {
    pub opens: u32,
    pub writes: u32,
    pub closes: u32,
    pub fsyncs: u32,
    pub metas: u32,
    pub bytes_accepted: u64,
    pub open_eintr: u32,
    pub open_hard: u32,
    pub write_short: u32,
    pub write_eintr: u32,
    pub write_hard: u32,
    pub write_zero: u32,
    pub disk_full_short: u32,
    pub disk_full_err: u32,
    pub dribble_short: u32,
    pub close_err: u32,
    pub fsync_err: u32,
    pub meta_err: u32,
    /// tracked system calls seen so far (the clock of `kill_at`)
    #[serde(default)]
    pub ticks: u32,
    /// compact log of tracked calls, e.g. "open#0=3 write#0(5000)=100 write#1(4900)=ENOSPC"
    pub log: Vec<String>,
}

impl Delivered {
    /// A fault that the caller cannot transparently recover from by retrying the same call.
    pub fn hard(&self) -> u32 {
        self.open_hard + self.write_hard + self.write_zero + self.disk_full_err + self.meta_err
    }
    pub fn benign(&self) -> u32 {
        self.open_eintr
            + self.write_short
            + self.write_eintr
            + self.disk_full_short
            + self.dribble_short
            + self.close_err
            + self.fsync_err
    }
}

struct World {
    owner: u64,
    /// also adopts files opened by threads that have no world of their own (helper threads the
    /// code under test starts); only used when a single caller is active in the process
    ambient: bool,
    plan: Plan,
    fds: Vec<c_int>,
    d: Delivered,
}

/// All armed worlds of the process. A world belongs to the caller thread that armed it, but the
/// descriptors it tracks are followed on whatever thread uses them (a background writer thread
/// meets the same device as the caller that opened the file).
static WORLDS: std::sync::Mutex<Vec<World>> = std::sync::Mutex::new(Vec::new());
static NEXT_OWNER: std::sync::atomic::AtomicU64 = std::sync::atomic::AtomicU64::new(1);

thread_local! {
    static OWNER: rstd_cell::Cell<u64> = const { rstd_cell::Cell::new(0) };
    static IN_SHIM: rstd_cell::Cell<bool> = const { rstd_cell::Cell::new(false) };
}

thread_local! {
    static YIELD_AT_SYSCALLS: rstd_cell::Cell<bool> = const { rstd_cell::Cell::new(false) };
}
use std::cell as rstd_cell;

/// Concurrent-caller runs: every tracked system call is a scheduling point of the baton scheduler.
pub fn set_yield_at_syscalls(on: bool) {
    YIELD_AT_SYSCALLS.with(|c| c.set(on));
}

fn sys_point(site: &'static str) {
    let on = YIELD_AT_SYSCALLS.try_with(|c| c.get()).unwrap_or(false);
    if on && with_armed(|_| ()).is_some() {
        crate::c14::sched::hook_no_unwind(site);
    }
}

fn tracked(fd: c_int) -> bool {
    with_fd(fd, |_| ()).is_some()
}

/// Arms a world for the calling thread with a plan. Every file this thread opens for writing
/// until `disarm` is tracked (on whichever thread it is used afterwards). With `ambient`, files
/// opened for writing by threads without a world are tracked by this one too.
pub fn arm_with(plan: Plan, ambient: bool) {
    let owner = NEXT_OWNER.fetch_add(1, std::sync::atomic::Ordering::SeqCst);
    let prev = OWNER.with(|o| o.replace(owner));
    let mut ws = WORLDS.lock().unwrap_or_else(|e| e.into_inner());
    ws.retain(|w| w.owner != prev);
    ws.push(World { owner, ambient, plan, fds: Vec::new(), d: Delivered::default() });
}

pub fn arm(plan: Plan) {
    // one caller at a time unless system calls are scheduling points (concurrent-caller runs)
    let conc = YIELD_AT_SYSCALLS.try_with(|c| c.get()).unwrap_or(false);
    arm_with(plan, !conc)
}

/// Disarms and returns what was actually delivered.
pub fn disarm() -> Delivered {
    let owner = OWNER.with(|o| o.replace(0));
    let mut ws = WORLDS.lock().unwrap_or_else(|e| e.into_inner());
    match ws.iter().position(|w| w.owner == owner && owner != 0) {
        Some(i) => ws.swap_remove(i).d,
        None => Delivered::default(),
    }
}

fn set_errno(e: c_int) {
    unsafe {
        *libc::__errno_location() = e;
    }
}

pub fn errno_name(e: i32) -> &'static str {
    match e {
        libc::ENOENT => "ENOENT",
        libc::EACCES => "EACCES",
        libc::EROFS => "EROFS",
        libc::EISDIR => "EISDIR",
        libc::ENOTDIR => "ENOTDIR",
        libc::ENOSPC => "ENOSPC",
        libc::EDQUOT => "EDQUOT",
        libc::EMFILE => "EMFILE",
        libc::ENFILE => "ENFILE",
        libc::ENAMETOOLONG => "ENAMETOOLONG",
        libc::ELOOP => "ELOOP",
        libc::ENOMEM => "ENOMEM",
        libc::EIO => "EIO",
        libc::EFBIG => "EFBIG",
        libc::EINTR => "EINTR",
        libc::EPERM => "EPERM",
        libc::EXDEV => "EXDEV",
        libc::EBUSY => "EBUSY",
        libc::ETXTBSY => "ETXTBSY",
        libc::EAGAIN => "EAGAIN",
        libc::ETIMEDOUT => "ETIMEDOUT",
        libc::EPIPE => "EPIPE",
        libc::EOVERFLOW => "EOVERFLOW",
        libc::ENXIO => "ENXIO",
        libc::ENODEV => "ENODEV",
        libc::ESTALE => "ESTALE",
        libc::EINVAL => "EINVAL",
        _ => "E?",
    }
}

enum Decision<T> {
    /// not tracked, or no fault: perform the real call (possibly with a reduced length)
    Pass(T),
    /// fail with errno
    Fail(c_int),
    /// return this value without calling the kernel
    Return(ssize_t),
}

/// Runs `f` on the world responsible for path-based calls of the calling thread: its own, or -
/// for a thread that never armed one - the ambient world if there is one. `None` otherwise, on
/// re-entry, or during thread teardown.
fn with_armed<R>(f: impl FnOnce(&mut World) -> R) -> Option<R> {
    let owner = OWNER.try_with(|o| o.get()).ok()?;
    if IN_SHIM.try_with(|c| c.replace(true)).unwrap_or(true) {
        return None;
    }
    let r = {
        let mut ws = WORLDS.lock().unwrap_or_else(|e| e.into_inner());
        let w = if owner != 0 { ws.iter_mut().find(|w| w.owner == owner) } else { ws.iter_mut().find(|w| w.ambient) };
        w.map(f)
    };
    let _ = IN_SHIM.try_with(|c| c.set(false));
    r
}

/// Runs `f` on the world that tracks descriptor `fd`, whichever thread calls.
fn with_fd<R>(fd: c_int, f: impl FnOnce(&mut World) -> R) -> Option<R> {
    if IN_SHIM.try_with(|c| c.replace(true)).unwrap_or(true) {
        return None;
    }
    let r = {
        let mut ws = WORLDS.lock().unwrap_or_else(|e| e.into_inner());
        ws.iter_mut().find(|w| w.fds.contains(&fd)).map(f)
    };
    let _ = IN_SHIM.try_with(|c| c.set(false));
    r
}

/// The delivery log is for humans: it never grows without bound (an implementation that
/// retries for ever against a persistent fault must not be killed by *our* bookkeeping).
fn log_push(w: &mut World, line: String) {
    if w.d.log.len() < 256 {
        w.d.log.push(line);
    }
}

/// One tick of the crash clock: called once per tracked system call, before it takes effect.
fn tick(w: &mut World) {
    let n = w.d.ticks;
    w.d.ticks += 1;
    if w.plan.kill_at == Some(n) {
        // the simulated crash: nothing after this instant happens, nothing before it is undone
        unsafe { libc::_exit(137) }
    }
}

fn wants_write(flags: c_int) -> bool {
    let acc = flags & libc::O_ACCMODE;
    acc == libc::O_WRONLY || acc == libc::O_RDWR || (flags & libc::O_CREAT) != 0
}

// ---- open family -----------------------------------------------------------

unsafe fn real_openat(dirfd: c_int, path: *const c_char, flags: c_int, mode: c_uint) -> c_int {
    libc::syscall(libc::SYS_openat, dirfd as c_long, path, flags as c_long, mode as c_long) as c_int
}

unsafe fn do_open(dirfd: c_int, path: *const c_char, flags: c_int, mode: c_uint) -> c_int {
    if !wants_write(flags) {
        return real_openat(dirfd, path, flags, mode);
    }
    sys_point("sys:open");
    let dec = with_armed(|w| {
        tick(w);
        let idx = w.d.opens;
        w.d.opens += 1;
        let fault = w.plan.open.iter().find(|(i, _)| *i == idx).map(|(_, f)| f.clone());
        match fault {
            Some(OpenFault::Eintr) => {
                w.d.open_eintr += 1;
                log_push(w, format!("open#{}=EINTR", idx));
                Decision::Fail(libc::EINTR)
            }
            Some(OpenFault::Hard(e)) => {
                w.d.open_hard += 1;
                log_push(w, format!("open#{}={}", idx, errno_name(e)));
                Decision::Fail(e)
            }
            None => Decision::Pass(idx),
        }
    });
    match dec {
        None => real_openat(dirfd, path, flags, mode),
        Some(Decision::Fail(e)) => {
            set_errno(e);
            -1
        }
        Some(Decision::Return(_)) => unreachable!(),
        Some(Decision::Pass(idx)) => {
            let fd = real_openat(dirfd, path, flags, mode);
            let saved = *libc::__errno_location();
            with_armed(|w| {
                if fd >= 0 {
                    w.fds.push(fd);
                    log_push(w, format!("open#{}=fd flags={:#o}", idx, flags));
                } else {
                    log_push(w, format!("open#{}=real:{}", idx, errno_name(saved)));
                }
            });
            set_errno(saved);
            fd
        }
    }
}

#[no_mangle]
pub unsafe extern "C" fn open(path: *const c_char, flags: c_int, mode: c_uint) -> c_int {
    do_open(libc::AT_FDCWD, path, flags, mode)
}

#[no_mangle]
pub unsafe extern "C" fn open64(path: *const c_char, flags: c_int, mode: c_uint) -> c_int {
    do_open(libc::AT_FDCWD, path, flags | libc::O_LARGEFILE, mode)
}

#[no_mangle]
pub unsafe extern "C" fn openat(dirfd: c_int, path: *const c_char, flags: c_int, mode: c_uint) -> c_int {
    do_open(dirfd, path, flags, mode)
}

#[no_mangle]
pub unsafe extern "C" fn openat64(dirfd: c_int, path: *const c_char, flags: c_int, mode: c_uint) -> c_int {
    do_open(dirfd, path, flags | libc::O_LARGEFILE, mode)
}

#[no_mangle]
pub unsafe extern "C" fn creat(path: *const c_char, mode: c_uint) -> c_int {
    do_open(libc::AT_FDCWD, path, libc::O_CREAT | libc::O_WRONLY | libc::O_TRUNC, mode)
}

#[no_mangle]
pub unsafe extern "C" fn creat64(path: *const c_char, mode: c_uint) -> c_int {
    do_open(
        libc::AT_FDCWD,
        path,
        libc::O_CREAT | libc::O_WRONLY | libc::O_TRUNC | libc::O_LARGEFILE,
        mode,
    )
}

// ---- stdout capture (used by C14 for `QRCode::print`) ----------------------

thread_local! {
    static CAPTURE: RefCell<Option<Vec<u8>>> = const { RefCell::new(None) };
}

/// From now on, bytes the calling thread writes to fd 1 are collected instead of written.
pub fn capture_stdout_begin() {
    // make sure nothing of ours is pending in std's line buffer
    let _ = std::io::Write::flush(&mut std::io::stdout());
    CAPTURE.with(|c| *c.borrow_mut() = Some(Vec::new()));
}

pub fn capture_stdout_end() -> Vec<u8> {
    let _ = std::io::Write::flush(&mut std::io::stdout());
    CAPTURE.with(|c| c.borrow_mut().take()).unwrap_or_default()
}

unsafe fn captured(fd: c_int, buf: *const c_void, count: size_t) -> bool {
    if fd != 1 {
        return false;
    }
    CAPTURE
        .try_with(|c| match c.try_borrow_mut() {
            Ok(mut b) => match b.as_mut() {
                Some(v) => {
                    if count > 0 && !buf.is_null() {
                        v.extend_from_slice(std::slice::from_raw_parts(buf as *const u8, count));
                    }
                    true
                }
                None => false,
            },
            Err(_) => false,
        })
        .unwrap_or(false)
}

// ---- write family ----------------------------------------------------------

/// Decides what a tracked write of `n` bytes does: `Pass(m)` = really write the first `m` bytes.
fn decide_write(fd: c_int, n: usize) -> Option<Decision<usize>> {
    with_fd(fd, |w| {
        tick(w);
        let idx = w.d.writes;
        w.d.writes += 1;
        if n == 0 {
            return Some(Decision::Pass(0));
        }
        let fault = w.plan.write.iter().find(|(i, _)| *i == idx).map(|(_, f)| f.clone());
        let mut allowed = n;
        match fault {
            Some(WriteFault::Eintr) => {
                w.d.write_eintr += 1;
                log_push(w, format!("write#{}({})=EINTR", idx, n));
                return Some(Decision::Fail(libc::EINTR));
            }
            Some(WriteFault::Hard(e)) => {
                w.d.write_hard += 1;
                log_push(w, format!("write#{}({})={}", idx, n, errno_name(e)));
                return Some(Decision::Fail(e));
            }
            Some(WriteFault::Zero) => {
                w.d.write_zero += 1;
                log_push(w, format!("write#{}({})=0", idx, n));
                return Some(Decision::Return(0));
            }
            Some(WriteFault::Short(spec)) => {
                if n > 1 {
                    let m = match spec {
                        ShortSpec::One => 1,
                        ShortSpec::Half => n / 2,
                        ShortSpec::AllButOne => n - 1,
                        ShortSpec::AtMost(k) => k,
                    };
                    let m = m.clamp(1, n - 1);
                    allowed = m;
                    w.d.write_short += 1;
                }
            }
            None => {}
        }
        if let Some(c) = w.plan.max_chunk {
            let c = c.max(1);
            if allowed > c {
                allowed = c;
                w.d.dribble_short += 1;
            }
        }
        if let Some(limit) = w.plan.disk_full_at {
            let room = limit.saturating_sub(w.d.bytes_accepted);
            if room == 0 {
                w.d.disk_full_err += 1;
                log_push(w, format!("write#{}({})=ENOSPC@{}", idx, n, w.d.bytes_accepted));
                return Some(Decision::Fail(libc::ENOSPC));
            }
            if (allowed as u64) > room {
                allowed = room as usize;
                w.d.disk_full_short += 1;
            }
        }
        if w.d.log.len() < 64 {
            log_push(w, format!("write#{}({})={}", idx, n, allowed));
        }
        Some(Decision::Pass(allowed))
    })
    .flatten()
}

fn note_accepted(fd: c_int, n: ssize_t) {
    if n > 0 {
        with_fd(fd, |w| w.d.bytes_accepted += n as u64);
    }
}

#[no_mangle]
pub unsafe extern "C" fn write(fd: c_int, buf: *const c_void, count: size_t) -> ssize_t {
    if captured(fd, buf, count) {
        return count as ssize_t;
    }
    if tracked(fd) {
        sys_point("sys:write");
    }
    match decide_write(fd, count) {
        None => libc::syscall(libc::SYS_write, fd as c_long, buf, count) as ssize_t,
        Some(Decision::Fail(e)) => {
            set_errno(e);
            -1
        }
        Some(Decision::Return(v)) => v,
        Some(Decision::Pass(m)) => {
            let r = libc::syscall(libc::SYS_write, fd as c_long, buf, m) as ssize_t;
            let saved = *libc::__errno_location();
            note_accepted(fd, r);
            set_errno(saved);
            r
        }
    }
}

#[no_mangle]
pub unsafe extern "C" fn pwrite64(fd: c_int, buf: *const c_void, count: size_t, offset: off_t) -> ssize_t {
    match decide_write(fd, count) {
        None => libc::syscall(libc::SYS_pwrite64, fd as c_long, buf, count, offset) as ssize_t,
        Some(Decision::Fail(e)) => {
            set_errno(e);
            -1
        }
        Some(Decision::Return(v)) => v,
        Some(Decision::Pass(m)) => {
            let r = libc::syscall(libc::SYS_pwrite64, fd as c_long, buf, m, offset) as ssize_t;
            let saved = *libc::__errno_location();
            note_accepted(fd, r);
            set_errno(saved);
            r
        }
    }
}

#[no_mangle]
pub unsafe extern "C" fn pwrite(fd: c_int, buf: *const c_void, count: size_t, offset: off_t) -> ssize_t {
    pwrite64(fd, buf, count, offset)
}

#[no_mangle]
pub unsafe extern "C" fn writev(fd: c_int, iov: *const iovec, iovcnt: c_int) -> ssize_t {
    let mut total: usize = 0;
    if !iov.is_null() && iovcnt > 0 {
        for i in 0..iovcnt as usize {
            total = total.saturating_add((*iov.add(i)).iov_len);
        }
        if fd == 1 && captured(1, std::ptr::null(), 0) {
            for i in 0..iovcnt as usize {
                let v = &*iov.add(i);
                captured(1, v.iov_base, v.iov_len);
            }
            return total as ssize_t;
        }
    }
    match decide_write(fd, total) {
        None => libc::syscall(libc::SYS_writev, fd as c_long, iov, iovcnt as c_long) as ssize_t,
        Some(Decision::Fail(e)) => {
            set_errno(e);
            -1
        }
        Some(Decision::Return(v)) => v,
        Some(Decision::Pass(m)) => {
            if m == total {
                let r = libc::syscall(libc::SYS_writev, fd as c_long, iov, iovcnt as c_long) as ssize_t;
                let saved = *libc::__errno_location();
                note_accepted(fd, r);
                set_errno(saved);
                return r;
            }
            // short: write a prefix of the vectors with plain write calls
            let mut left = m;
            let mut done: ssize_t = 0;
            for i in 0..iovcnt as usize {
                if left == 0 {
                    break;
                }
                let v = &*iov.add(i);
                let k = v.iov_len.min(left);
                if k == 0 {
                    continue;
                }
                let r = libc::syscall(libc::SYS_write, fd as c_long, v.iov_base, k) as ssize_t;
                if r < 0 {
                    if done == 0 {
                        return r;
                    }
                    break;
                }
                done += r;
                left -= r as usize;
                if (r as usize) < k {
                    break;
                }
            }
            note_accepted(fd, done);
            done
        }
    }
}

// ---- close / sync / metadata ----------------------------------------------

#[no_mangle]
pub unsafe extern "C" fn close(fd: c_int) -> c_int {
    if tracked(fd) {
        sys_point("sys:close");
    }
    let fault = with_fd(fd, |w| {
        if let Some(pos) = w.fds.iter().position(|&f| f == fd) {
            tick(w);
            w.fds.swap_remove(pos);
            w.d.closes += 1;
            let transient_spent = w.plan.close_err == Some(libc::EINTR) && w.d.close_err >= 3;
            if let (Some(e), false) = (w.plan.close_err, transient_spent) {
                w.d.close_err += 1;
                log_push(w, format!("close={}", errno_name(e)));
                return Some(e);
            }
        }
        None
    })
    .flatten();
    // the descriptor is always really closed (as Linux does even when close reports an error)
    let r = libc::syscall(libc::SYS_close, fd as c_long) as c_int;
    if let Some(e) = fault {
        set_errno(e);
        return -1;
    }
    r
}

unsafe fn sync_common(fd: c_int, nr: c_long) -> c_int {
    let fault = with_fd(fd, |w| {
        if w.fds.contains(&fd) {
            tick(w);
            w.d.fsyncs += 1;
            // EINTR is transient by nature (std retries fsync on it): at most three in a row,
            // as for open and write; a persistent EINTR would be a livelock of our own making
            let transient_spent = w.plan.fsync_err == Some(libc::EINTR) && w.d.fsync_err >= 3;
            if let (Some(e), false) = (w.plan.fsync_err, transient_spent) {
                w.d.fsync_err += 1;
                log_push(w, format!("fsync={}", errno_name(e)));
                return Some(e);
            }
        }
        None
    })
    .flatten();
    if let Some(e) = fault {
        set_errno(e);
        return -1;
    }
    libc::syscall(nr, fd as c_long) as c_int
}

#[no_mangle]
pub unsafe extern "C" fn fsync(fd: c_int) -> c_int {
    sync_common(fd, libc::SYS_fsync)
}

#[no_mangle]
pub unsafe extern "C" fn fdatasync(fd: c_int) -> c_int {
    sync_common(fd, libc::SYS_fdatasync)
}

fn meta_fault_in(w: &mut World, what: &str) -> Option<c_int> {
    tick(w);
    w.d.metas += 1;
    if let Some(e) = w.plan.meta_err {
        w.d.meta_err += 1;
        log_push(w, format!("{}={}", what, errno_name(e)));
        Some(e)
    } else {
        log_push(w, format!("{}=pass", what));
        None
    }
}

fn meta_fault(what: &str) -> Option<c_int> {
    sys_point("sys:rename_or_truncate");
    with_armed(|w| meta_fault_in(w, what)).flatten()
}

#[no_mangle]
pub unsafe extern "C" fn rename(old: *const c_char, new: *const c_char) -> c_int {
    if let Some(e) = meta_fault("rename") {
        set_errno(e);
        return -1;
    }
    libc::syscall(
        libc::SYS_renameat2,
        libc::AT_FDCWD as c_long,
        old,
        libc::AT_FDCWD as c_long,
        new,
        0 as c_long,
    ) as c_int
}

#[no_mangle]
pub unsafe extern "C" fn renameat(odfd: c_int, old: *const c_char, ndfd: c_int, new: *const c_char) -> c_int {
    if let Some(e) = meta_fault("renameat") {
        set_errno(e);
        return -1;
    }
    libc::syscall(libc::SYS_renameat2, odfd as c_long, old, ndfd as c_long, new, 0 as c_long) as c_int
}

#[no_mangle]
pub unsafe extern "C" fn ftruncate64(fd: c_int, len: off_t) -> c_int {
    if tracked(fd) {
        sys_point("sys:rename_or_truncate");
        let fault = with_fd(fd, |w| meta_fault_in(w, "ftruncate")).flatten();
        if let Some(e) = fault {
            set_errno(e);
            return -1;
        }
    }
    libc::syscall(libc::SYS_ftruncate, fd as c_long, len) as c_int
}

#[no_mangle]
pub unsafe extern "C" fn ftruncate(fd: c_int, len: off_t) -> c_int {
    ftruncate64(fd, len)
}

#[no_mangle]
pub unsafe extern "C" fn renameat2(odfd: c_int, old: *const c_char, ndfd: c_int, new: *const c_char, flags: c_uint) -> c_int {
    if let Some(e) = meta_fault("renameat2") {
        set_errno(e);
        return -1;
    }
    libc::syscall(libc::SYS_renameat2, odfd as c_long, old, ndfd as c_long, new, flags as c_long) as c_int
}

#[no_mangle]
pub unsafe extern "C" fn link(old: *const c_char, new: *const c_char) -> c_int {
    if let Some(e) = meta_fault("link") {
        set_errno(e);
        return -1;
    }
    libc::syscall(libc::SYS_linkat, libc::AT_FDCWD as c_long, old, libc::AT_FDCWD as c_long, new, 0 as c_long) as c_int
}

#[no_mangle]
pub unsafe extern "C" fn linkat(odfd: c_int, old: *const c_char, ndfd: c_int, new: *const c_char, flags: c_int) -> c_int {
    if let Some(e) = meta_fault("linkat") {
        set_errno(e);
        return -1;
    }
    libc::syscall(libc::SYS_linkat, odfd as c_long, old, ndfd as c_long, new, flags as c_long) as c_int
}

#[no_mangle]
pub unsafe extern "C" fn symlink(target: *const c_char, linkpath: *const c_char) -> c_int {
    if let Some(e) = meta_fault("symlink") {
        set_errno(e);
        return -1;
    }
    libc::syscall(libc::SYS_symlinkat, target, libc::AT_FDCWD as c_long, linkpath) as c_int
}

/// unlink is a scheduling point and a crash point, but never fails by injection: a rollback that
/// cannot remove its debris is still entitled to report the original error.
#[no_mangle]
pub unsafe extern "C" fn unlink(path: *const c_char) -> c_int {
    sys_point("sys:unlink");
    with_armed(|w| {
        tick(w);
        w.d.metas += 1;
        log_push(w, "unlink=pass".into());
    });
    libc::syscall(libc::SYS_unlinkat, libc::AT_FDCWD as c_long, path, 0 as c_long) as c_int
}

#[no_mangle]
pub unsafe extern "C" fn unlinkat(dirfd: c_int, path: *const c_char, flags: c_int) -> c_int {
    sys_point("sys:unlink");
    with_armed(|w| {
        tick(w);
        w.d.metas += 1;
        log_push(w, "unlinkat=pass".into());
    });
    libc::syscall(libc::SYS_unlinkat, dirfd as c_long, path, flags as c_long) as c_int
}

/// Preallocation is where a full device is reported first by implementations that reserve space.
unsafe fn fallocate_common(fd: c_int, mode: c_int, offset: off_t, len: off_t, posix: bool) -> c_int {
    if tracked(fd) {
        let full = with_fd(fd, |w| {
            tick(w);
            w.d.metas += 1;
            let full = match w.plan.disk_full_at {
                Some(limit) => (offset as u64).saturating_add(len as u64) > limit,
                None => false,
            };
            if full {
                w.d.disk_full_err += 1;
                log_push(w, format!("fallocate({})=ENOSPC", len));
            } else if let Some(e) = w.plan.meta_err {
                w.d.meta_err += 1;
                log_push(w, format!("fallocate({})={}", len, errno_name(e)));
                return Some(e);
            }
            if full { Some(libc::ENOSPC) } else { None }
        })
        .flatten();
        if let Some(e) = full {
            if posix {
                return e;
            }
            set_errno(e);
            return -1;
        }
    }
    let r = libc::syscall(libc::SYS_fallocate, fd as c_long, mode as c_long, offset, len) as c_int;
    if posix && r != 0 {
        return *libc::__errno_location();
    }
    r
}

#[no_mangle]
pub unsafe extern "C" fn fallocate(fd: c_int, mode: c_int, offset: off_t, len: off_t) -> c_int {
    fallocate_common(fd, mode, offset, len, false)
}

#[no_mangle]
pub unsafe extern "C" fn fallocate64(fd: c_int, mode: c_int, offset: off_t, len: off_t) -> c_int {
    fallocate_common(fd, mode, offset, len, false)
}

#[no_mangle]
pub unsafe extern "C" fn posix_fallocate(fd: c_int, offset: off_t, len: off_t) -> c_int {
    fallocate_common(fd, 0, offset, len, true)
}

#[no_mangle]
pub unsafe extern "C" fn posix_fallocate64(fd: c_int, offset: off_t, len: off_t) -> c_int {
    fallocate_common(fd, 0, offset, len, true)
}

/// In-kernel copies (`std::fs::copy`, `std::io::copy` between files): write-like on the output descriptor.
#[no_mangle]
pub unsafe extern "C" fn copy_file_range(fd_in: c_int, off_in: *mut off_t, fd_out: c_int, off_out: *mut off_t, len: size_t, flags: c_uint) -> ssize_t {
    if tracked(fd_out) {
        sys_point("sys:write");
    }
    let real = |n: size_t| libc::syscall(libc::SYS_copy_file_range, fd_in as c_long, off_in, fd_out as c_long, off_out, n, flags as c_long) as ssize_t;
    match decide_write(fd_out, len) {
        None => real(len),
        Some(Decision::Fail(e)) => {
            set_errno(e);
            -1
        }
        Some(Decision::Return(v)) => v,
        Some(Decision::Pass(m)) => {
            let r = real(m);
            let saved = *libc::__errno_location();
            note_accepted(fd_out, r);
            set_errno(saved);
            r
        }
    }
}

unsafe fn sendfile_common(out_fd: c_int, in_fd: c_int, offset: *mut off_t, count: size_t) -> ssize_t {
    if tracked(out_fd) {
        sys_point("sys:write");
    }
    let real = |n: size_t| libc::syscall(libc::SYS_sendfile, out_fd as c_long, in_fd as c_long, offset, n) as ssize_t;
    match decide_write(out_fd, count) {
        None => real(count),
        Some(Decision::Fail(e)) => {
            set_errno(e);
            -1
        }
        Some(Decision::Return(v)) => v,
        Some(Decision::Pass(m)) => {
            let r = real(m);
            let saved = *libc::__errno_location();
            note_accepted(out_fd, r);
            set_errno(saved);
            r
        }
    }
}

#[no_mangle]
pub unsafe extern "C" fn sendfile(out_fd: c_int, in_fd: c_int, offset: *mut off_t, count: size_t) -> ssize_t {
    sendfile_common(out_fd, in_fd, offset, count)
}

#[no_mangle]
pub unsafe extern "C" fn sendfile64(out_fd: c_int, in_fd: c_int, offset: *mut off_t, count: size_t) -> ssize_t {
    sendfile_common(out_fd, in_fd, offset, count)
}

#[no_mangle]
pub unsafe extern "C" fn pwritev(fd: c_int, iov: *const iovec, iovcnt: c_int, offset: off_t) -> ssize_t {
    // rare: handled as "first vector only" when a fault or a length limit applies
    let mut total: usize = 0;
    if !iov.is_null() && iovcnt > 0 {
        for i in 0..iovcnt as usize {
            total = total.saturating_add((*iov.add(i)).iov_len);
        }
    }
    match decide_write(fd, total) {
        None => libc::syscall(libc::SYS_pwritev, fd as c_long, iov, iovcnt as c_long, offset, 0 as c_long) as ssize_t,
        Some(Decision::Fail(e)) => {
            set_errno(e);
            -1
        }
        Some(Decision::Return(v)) => v,
        Some(Decision::Pass(m)) => {
            if m == total {
                let r = libc::syscall(libc::SYS_pwritev, fd as c_long, iov, iovcnt as c_long, offset, 0 as c_long) as ssize_t;
                let saved = *libc::__errno_location();
                note_accepted(fd, r);
                set_errno(saved);
                return r;
            }
            let v = &*iov;
            let k = v.iov_len.min(m);
            let r = libc::syscall(libc::SYS_pwrite64, fd as c_long, v.iov_base, k, offset) as ssize_t;
            let saved = *libc::__errno_location();
            note_accepted(fd, r);
            set_errno(saved);
            r
        }
    }
}

#[no_mangle]
pub unsafe extern "C" fn pwritev64(fd: c_int, iov: *const iovec, iovcnt: c_int, offset: off_t) -> ssize_t {
    pwritev(fd, iov, iovcnt, offset)
}

/// Self-test used at start-up: proves that std's file API really arrives at
/// these shims in this binary (otherwise every C19 run would be vacuous).
pub fn interposition_works(scratch: &std::path::Path) -> Result<(), String> {
    use std::io::Write;
    let p = scratch.join("shim-selftest");
    arm(Plan {
        write: vec![(0, WriteFault::Short(ShortSpec::One)), (1, WriteFault::Eintr)],
        ..Plan::default()
    });
    let r = (|| -> std::io::Result<()> {
        let mut f = std::fs::File::create(&p)?;
        f.write_all(b"hello world")?;
        Ok(())
    })();
    let d = disarm();
    let back = std::fs::read(&p).map_err(|e| e.to_string())?;
    let _ = std::fs::remove_file(&p);
    if r.is_err() {
        return Err(format!("write_all failed under benign faults: {:?}", r));
    }
    if back != b"hello world" {
        return Err("file content differs after benign faults".into());
    }
    if d.opens != 1 || d.write_short != 1 || d.write_eintr != 1 || d.writes < 3 || d.closes != 1 {
        return Err(format!("shim did not see the expected calls: {:?}", d));
    }
    // std::fs::write path (used by tiny-skia's save_png)
    arm(Plan {
        disk_full_at: Some(4),
        ..Plan::default()
    });
    let r = std::fs::write(&p, b"0123456789");
    let d = disarm();
    let back = std::fs::read(&p).map_err(|e| e.to_string())?;
    let _ = std::fs::remove_file(&p);
    if r.is_ok() || back != b"0123" || d.disk_full_err != 1 {
        return Err(format!("disk-full plan not delivered as expected: {:?} {:?} {:?}", r, back, d));
    }
    Ok(())
}
