//! Minimisation of a failing C19 run: drop operations, then faults, then
//! options, keeping a candidate only if a fresh process still reports the
//! same violation class.

use serde_json::{json, Value};

use super::driver::exec_fresh;
use super::*;

struct Shrinker {
    class: String,
    evals: u32,
    max_evals: u32,
    best_v: Violation,
}

impl Shrinker {
    fn still_fails(&mut self, cand: &IoRun) -> bool {
        if self.evals >= self.max_evals {
            return false;
        }
        self.evals += 1;
        match exec_fresh(cand) {
            Ok(Some(v)) if v.class() == self.class => {
                self.best_v = v;
                true
            }
            _ => false,
        }
    }
}

pub fn minimise(run: &IoRun, v: &Violation) -> (IoRun, Violation, Value) {
    let mut s = Shrinker {
        class: v.class(),
        evals: 0,
        // a candidate that never returns costs the whole watchdog period
        max_evals: if v.invariant == "O1_never_returned" { 4 } else if v.invariant == "O1_process_died" { 60 } else { 250 },
        best_v: v.clone(),
    };
    let mut cur = run.clone();
    let ops_before = cur.ops.len();
    // ops after the violating one never ran
    cur.ops.truncate((v.op_index + 1).min(cur.ops.len()));

    // 1. only the violating op?
    if cur.ops.len() > 1 {
        let mut cand = cur.clone();
        cand.ops = vec![cur.ops.last().unwrap().clone()];
        if s.still_fails(&cand) {
            cur = cand;
        } else {
            // drop earlier ops one at a time
            let mut i = 0;
            while i + 1 < cur.ops.len() {
                let mut cand = cur.clone();
                cand.ops.remove(i);
                if s.still_fails(&cand) {
                    cur = cand;
                } else {
                    i += 1;
                }
            }
        }
    }

    // 2. simplify every remaining op, last (the violating one) first
    for oi in (0..cur.ops.len()).rev() {
        macro_rules! attempt {
            ($mutate:expr) => {{
                let mut cand = cur.clone();
                let changed: bool = {
                    let op: &mut IoOp = &mut cand.ops[oi];
                    $mutate(op)
                };
                if changed && s.still_fails(&cand) {
                    cur = cand;
                    true
                } else {
                    false
                }
            }};
        }
        // benign faults first, then the rest, one entry at a time
        loop {
            let mut progress = false;
            let n_w = cur.ops[oi].plan.write.len();
            for k in (0..n_w).rev() {
                progress |= attempt!(|op: &mut IoOp| {
                    if k < op.plan.write.len() {
                        op.plan.write.remove(k);
                        true
                    } else {
                        false
                    }
                });
            }
            let n_o = cur.ops[oi].plan.open.len();
            for k in (0..n_o).rev() {
                progress |= attempt!(|op: &mut IoOp| {
                    if k < op.plan.open.len() {
                        op.plan.open.remove(k);
                        // later open indices shift down with the removed call
                        for e in op.plan.open.iter_mut() {
                            if e.0 as usize > k {
                                e.0 -= 1;
                            }
                        }
                        true
                    } else {
                        false
                    }
                });
            }
            progress |= attempt!(|op: &mut IoOp| op.plan.chunk.take().is_some());
            progress |= attempt!(|op: &mut IoOp| op.plan.close_err.take().is_some());
            progress |= attempt!(|op: &mut IoOp| op.plan.fsync_err.take().is_some());
            progress |= attempt!(|op: &mut IoOp| op.plan.meta_err.take().is_some());
            progress |= attempt!(|op: &mut IoOp| op.plan.disk_full.take().is_some());
            progress |= attempt!(|op: &mut IoOp| op.rlimit.take().is_some());
            if !progress {
                break;
            }
        }
        attempt!(|op: &mut IoOp| {
            let c = op.pre != Pre::Absent;
            op.pre = Pre::Absent;
            c
        });
        attempt!(|op: &mut IoOp| {
            if let Pre::Longer(n) = op.pre {
                if n != 1 {
                    op.pre = Pre::Longer(1);
                    return true;
                }
            }
            false
        });
        // debris next to the target, one piece at a time
        let mut k = cur.ops[oi].litter.len();
        while k > 0 {
            k -= 1;
            attempt!(|op: &mut IoOp| {
                if k < op.litter.len() {
                    op.litter.remove(k);
                    true
                } else {
                    false
                }
            });
        }
        // a crash as early as possible
        if let Some(k0) = cur.ops[oi].crash_at {
            for k in 0..k0 {
                if attempt!(|op: &mut IoOp| {
                    op.crash_at = Some(k);
                    true
                }) {
                    break;
                }
            }
        }
        attempt!(|op: &mut IoOp| op.pad_to.take().is_some());
        attempt!(|op: &mut IoOp| {
            let c = op.via_convert;
            op.via_convert = false;
            c
        });
        attempt!(|op: &mut IoOp| {
            if !op.target.kernel_fault() && op.target != Target::Scratch("out".into()) {
                op.target = Target::Scratch("out".into());
                true
            } else {
                false
            }
        });
        // setters, one at a time
        let mut k = cur.ops[oi].setters.len();
        while k > 0 {
            k -= 1;
            attempt!(|op: &mut IoOp| {
                if k < op.setters.len() {
                    op.setters.remove(k);
                    true
                } else {
                    false
                }
            });
        }
        // the QR code
        attempt!(|op: &mut IoOp| {
            let simple = QrCfg::new(b"hello".to_vec());
            if op.qr != simple {
                op.qr = simple;
                true
            } else {
                false
            }
        });
        attempt!(|op: &mut IoOp| op.qr.version.take().is_some());
        attempt!(|op: &mut IoOp| op.qr.mask.take().is_some());
        attempt!(|op: &mut IoOp| op.qr.ecl.take().is_some());
        attempt!(|op: &mut IoOp| op.qr.mode.take().is_some());
        while cur.ops[oi].qr.input.len() > 1 {
            let ok = attempt!(|op: &mut IoOp| {
                let n = op.qr.input.len() / 2;
                op.qr.input.truncate(n.max(1));
                true
            });
            if !ok {
                break;
            }
        }
    }

    let info = json!({
        "ops_before": ops_before,
        "ops_after": cur.ops.len(),
        "fresh_process_evaluations": s.evals,
        "evaluation_cap_reached": s.evals >= s.max_evals,
    });
    // the recorded violation must be the one the *minimised* run produces
    let mut final_v = s.best_v.clone();
    if let Ok(Some(v2)) = exec_fresh(&cur) {
        if v2.class() == s.class {
            final_v = v2;
        }
    }
    (cur, final_v, info)
}
