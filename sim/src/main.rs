//! fqsim — deterministic simulation with fault injection for `fast_qr`.
//!
//!   fqsim C14|C19 quick|thorough         run a check (what ./check calls)
//!   fqsim C14|C19 --replay <file>        replay a recorded violation in a fresh process
//!   fqsim selftest [determinism|...]     validate the machinery itself
//!   fqsim c14-worker|c14-exec|c14-anchor|c19-worker|c19-exec ...   (internal, child processes)
//!
//! Exit codes: 0 property held on everything explored; 1 violation (with a
//! `VIOLATION property=<id> replay=<path>` line); 2 harness error.

mod c14;
mod c19;
mod gen;
mod pool;
mod report;
mod rng;
mod selftest;
mod spec;

use report::Tier;

/// Payload of every panic the simulator injects (crash points, failing callbacks).
pub struct SimCrash(pub &'static str);

/// Yield point reachable from user callbacks running inside the crate.
pub fn hook_from_callback() {
    c14::sched::hook("cb:module");
}

/// Panics are data here: keep them off stderr.
pub fn quiet_panics() {
    if std::env::var_os("FQSIM_LOUD").is_some() {
        return; // debugging aid: keep the default hook (messages and backtraces on stderr)
    }
    std::panic::set_hook(Box::new(|_| {}));
}

fn usage() -> i32 {
    eprintln!("usage: fqsim <C14|C19> <quick|thorough> | <C14|C19> --replay <file> | selftest [which]");
    2
}

fn main() {
    let args: Vec<String> = std::env::args().skip(1).collect();
    let code = real_main(&args);
    if args.first().map(|c| c.starts_with("c14-")).unwrap_or(false) {
        spec::remove_logo_dir();
    }
    std::process::exit(code);
}

fn real_main(args: &[String]) -> i32 {
    let Some(cmd) = args.first() else { return usage() };
    let rest = &args[1..];
    if cmd.starts_with("c14-") || cmd.starts_with("c19-") {
        // every process that runs the crate under test
        report::limit_memory();
    }
    if cmd.starts_with("c14-") {
        // relative logo file names resolve against a directory of this process's own
        spec::enter_logo_cwd();
    }
    match cmd.as_str() {
        "C14" | "C19" => {
            if rest.first().map(|s| s.as_str()) == Some("--replay") {
                let Some(path) = rest.get(1) else { return usage() };
                return if cmd == "C14" { c14::driver::replay_main(path) } else { c19::driver::replay_main(path) };
            }
            let tier = rest
                .first()
                .and_then(|s| Tier::parse(s))
                .or_else(|| std::env::var("VERIF_TIER").ok().and_then(|s| Tier::parse(&s)))
                .unwrap_or(Tier::Quick);
            if cmd == "C14" {
                c14::driver::check_main(tier)
            } else {
                c19::driver::check_main(tier)
            }
        }
        "c19-worker" => c19::driver::worker_main(rest),
        "c19-exec" => c19::driver::exec_main(rest),
        "c19-crash" => c19::crash_child_main(rest),
        "c14-worker" => c14::driver::worker_main(rest),
        "c14-exec" => c14::driver::exec_main(rest),
        "c14-anchor" => c14::anchors::anchor_main(rest),
        "c14-one" => c14::one_main(rest),
        "c14-dump" => {
            // debugging aid: print generated episodes `fqsim c14-dump <first> <count>`
            let a: u64 = rest.first().and_then(|s| s.parse().ok()).unwrap_or(0);
            let n: u64 = rest.get(1).and_then(|s| s.parse().ok()).unwrap_or(1);
            for i in a..a + n {
                println!("{}", serde_json::to_string(&c14::egen::gen_episode(report::verif_seed(), i)).unwrap());
            }
            0
        }
        "selftest" => selftest::main(rest),
        _ => usage(),
    }
}
