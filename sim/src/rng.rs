//! The only source of randomness in the simulator: SplitMix64 for seeding and
//! mixing, xoshiro256** for streams. Hand-written so that a given seed means
//! the same run on every build of the harness.

#[inline]
pub fn splitmix64(state: &mut u64) -> u64 {
    *state = state.wrapping_add(0x9E37_79B9_7F4A_7C15);
    let mut z = *state;
    z = (z ^ (z >> 30)).wrapping_mul(0xBF58_476D_1CE4_E5B9);
    z = (z ^ (z >> 27)).wrapping_mul(0x94D0_49BB_1331_11EB);
    z ^ (z >> 31)
}

/// Mixes two integers into one seed (used for `run seed = mix(VERIF_SEED, run index)`).
pub fn mix(a: u64, b: u64) -> u64 {
    let mut s = a ^ 0xD6E8_FEB8_6659_FD93;
    let x = splitmix64(&mut s);
    let mut t = x ^ b.wrapping_mul(0xA076_1D64_78BD_642F);
    splitmix64(&mut t)
}

#[derive(Clone, Debug)]
pub struct Rng {
    s: [u64; 4],
}

impl Rng {
    pub fn new(seed: u64) -> Self {
        let mut st = seed;
        let mut s = [0u64; 4];
        for x in s.iter_mut() {
            *x = splitmix64(&mut st);
        }
        if s == [0; 4] {
            s[0] = 1;
        }
        Rng { s }
    }

    #[inline]
    pub fn next_u64(&mut self) -> u64 {
        let result = self.s[1].wrapping_mul(5).rotate_left(7).wrapping_mul(9);
        let t = self.s[1] << 17;
        self.s[2] ^= self.s[0];
        self.s[3] ^= self.s[1];
        self.s[1] ^= self.s[2];
        self.s[0] ^= self.s[3];
        self.s[2] ^= t;
        self.s[3] = self.s[3].rotate_left(45);
        result
    }

    /// Uniform in `0..n` (n > 0).
    #[inline]
    pub fn below(&mut self, n: u64) -> u64 {
        debug_assert!(n > 0);
        (((self.next_u64() as u128) * (n as u128)) >> 64) as u64
    }

    #[inline]
    pub fn usize_below(&mut self, n: usize) -> usize {
        self.below(n as u64) as usize
    }

    /// Uniform in `lo..=hi`.
    #[inline]
    pub fn range(&mut self, lo: u64, hi: u64) -> u64 {
        debug_assert!(lo <= hi);
        lo + self.below(hi - lo + 1)
    }

    /// True with probability `num/den`.
    #[inline]
    pub fn chance(&mut self, num: u64, den: u64) -> bool {
        self.below(den) < num
    }

    /// True with probability `p` (0.0..=1.0).
    #[inline]
    pub fn prob(&mut self, p: f64) -> bool {
        ((self.next_u64() >> 11) as f64) < p * ((1u64 << 53) as f64)
    }

    pub fn pick<'a, T>(&mut self, xs: &'a [T]) -> &'a T {
        &xs[self.usize_below(xs.len())]
    }

    /// Picks an index with the given integer weights.
    pub fn weighted(&mut self, weights: &[u32]) -> usize {
        let total: u64 = weights.iter().map(|&w| w as u64).sum();
        debug_assert!(total > 0);
        let mut r = self.below(total);
        for (i, &w) in weights.iter().enumerate() {
            if r < w as u64 {
                return i;
            }
            r -= w as u64;
        }
        weights.len() - 1
    }

    pub fn fork(&mut self) -> Rng {
        Rng::new(self.next_u64())
    }
}

/// 128-bit digest of a byte string; two independent multiply-xorshift lanes.
/// Not cryptographic; used only to compare outcomes of the same build.
pub fn digest128(chunks: &[&[u8]]) -> [u64; 2] {
    let mut a: u64 = 0x243F_6A88_85A3_08D3;
    let mut b: u64 = 0x1319_8A2E_0370_7344;
    let mut total: u64 = 0;
    for bytes in chunks {
        total = total.wrapping_mul(0x100_0000_01B3).wrapping_add(bytes.len() as u64);
        let mut it = bytes.chunks_exact(8);
        for w in &mut it {
            let v = u64::from_le_bytes([w[0], w[1], w[2], w[3], w[4], w[5], w[6], w[7]]);
            a = (a ^ v).wrapping_mul(0x9E37_79B9_7F4A_7C15);
            a ^= a >> 32;
            b = (b.rotate_left(23) ^ v).wrapping_mul(0xC2B2_AE3D_27D4_EB4F);
            b ^= b >> 29;
        }
        let rem = it.remainder();
        if !rem.is_empty() {
            let mut w = [0u8; 8];
            w[..rem.len()].copy_from_slice(rem);
            let v = u64::from_le_bytes(w) ^ ((rem.len() as u64) << 56);
            a = (a ^ v).wrapping_mul(0x9E37_79B9_7F4A_7C15);
            a ^= a >> 32;
            b = (b.rotate_left(23) ^ v).wrapping_mul(0xC2B2_AE3D_27D4_EB4F);
            b ^= b >> 29;
        }
    }
    a = (a ^ total).wrapping_mul(0xFF51_AFD7_ED55_8CCD);
    a ^= a >> 33;
    b = (b ^ total.rotate_left(17)).wrapping_mul(0xC4CE_B9FE_1A85_EC53);
    b ^= b >> 33;
    [a, b]
}

pub fn hex128(d: [u64; 2]) -> String {
    format!("{:016x}{:016x}", d[0], d[1])
}

/// Order-dependent running hash for event logs.
#[inline]
pub fn fold(h: u64, v: u64) -> u64 {
    let mut s = h ^ v.wrapping_mul(0x9E37_79B9_7F4A_7C15);
    splitmix64(&mut s)
}

/// The first `n` bytes of `s`, cut back to a character boundary (messages from the code under
/// test may contain any text: paths with multi-byte names, for instance).
pub fn head(s: &str, n: usize) -> &str {
    if s.len() <= n {
        return s;
    }
    let mut k = n;
    while k > 0 && !s.is_char_boundary(k) {
        k -= 1;
    }
    &s[..k]
}
