//! The baton scheduler: every simulated caller is a real OS thread, but a
//! thread runs only while it holds the baton. At every `verif_point!` inside
//! the crate (and at every operation boundary) the running task hands the
//! decision "who continues" to the seeded policy. One seed = one interleaving.

use std::cell::RefCell;
use std::collections::BTreeMap;
use std::sync::{Arc, Condvar, Mutex, MutexGuard};

use serde::{Deserialize, Serialize};

use crate::rng::{digest128, fold, Rng};

pub const NOBODY: usize = usize::MAX;
/// Upper bound on tasks per episode: the callers plus every thread the crate under test spawns.
pub const MAX_TASKS: usize = 96;

/// Set once a thread started by the crate under test outlived its episode and now runs freely
/// (for instance a lazily started, process-wide worker). From then on other threads can make
/// progress outside the scheduler's view, so "every task is blocked" no longer proves a deadlock.
pub static FOREIGN_THREADS: std::sync::atomic::AtomicBool = std::sync::atomic::AtomicBool::new(false);

#[derive(Clone, Debug, PartialEq, Serialize, Deserialize)]
pub enum Policy {
    /// tasks run to completion in task-id order (no interleaving at all)
    Sequential,
    /// tasks run to completion in random order
    RunToCompletion,
    /// switch only between operations, with this probability
    OpBoundary(f64),
    /// at every point pick uniformly among runnable tasks
    Uniform,
    /// at every point switch away with this probability
    Sticky(f64),
    /// PCT-style: random priorities, priority change points at these decision indices
    Pct(Vec<u64>),
    /// like Sticky, but this task is never chosen while another is runnable
    Starve(usize, f64),
}

impl Policy {
    pub fn name(&self) -> &'static str {
        match self {
            Policy::Sequential => "sequential",
            Policy::RunToCompletion => "run_to_completion",
            Policy::OpBoundary(_) => "op_boundary",
            Policy::Uniform => "uniform",
            Policy::Sticky(_) => "sticky",
            Policy::Pct(_) => "pct",
            Policy::Starve(_, _) => "starve",
        }
    }
}

#[derive(Clone, Debug, PartialEq, Serialize, Deserialize)]
pub struct SchedSpec {
    pub policy: Policy,
    pub seed: u64,
}

#[derive(Default, Clone, Debug, Serialize, Deserialize)]
pub struct SchedStats {
    pub points: u64,
    pub decisions: u64,
    pub switches: u64,
    pub switches_inside_op: u64,
    pub crashes: u64,
    /// scheduling points where the caller could not proceed (lock held by a descheduled task)
    #[serde(default)]
    pub blocked_yields: u64,
    /// scheduling points that came from sync primitives / atomics (facade build only)
    #[serde(default)]
    pub sync_points: u64,
    /// readings of the simulated clock, and simulated time covered (facade build only)
    #[serde(default)]
    pub clock_reads: u64,
    #[serde(default)]
    pub simulated_ns: u64,
    /// threads started by the crate under test that ran as simulated tasks (facade build only)
    #[serde(default)]
    pub spawned_threads: u64,
    /// environment variables the crate looked up while simulated (facade build only)
    #[serde(default)]
    pub env_reads: u64,
    /// site -> [hit, switched here, crashed here]
    pub sites: BTreeMap<String, [u64; 3]>,
}

impl SchedStats {
    pub fn merge(&mut self, o: &SchedStats) {
        self.points += o.points;
        self.decisions += o.decisions;
        self.switches += o.switches;
        self.switches_inside_op += o.switches_inside_op;
        self.crashes += o.crashes;
        self.blocked_yields += o.blocked_yields;
        self.sync_points += o.sync_points;
        self.clock_reads += o.clock_reads;
        self.simulated_ns = self.simulated_ns.saturating_add(o.simulated_ns);
        self.spawned_threads += o.spawned_threads;
        self.env_reads += o.env_reads;
        for (k, v) in &o.sites {
            let e = self.sites.entry(k.clone()).or_insert([0; 3]);
            for i in 0..3 {
                e[i] += v[i];
            }
        }
    }
}

pub struct State {
    pub current: usize,
    pub alive: Vec<bool>,
    pub in_op: Vec<bool>,
    policy: Policy,
    rng: Rng,
    prio: Vec<u64>,
    pub decisions: Vec<u8>,
    pub trace: u64,
    pub stats: SchedStats,
    site_ids: BTreeMap<&'static str, u64>,
    /// consecutive blocked yields with no task making progress in between
    blocked_streak: u64,
    /// simulated nanoseconds since the episode began; only moves when somebody reads the clock
    sim_clock_ns: u64,
    pub clock_reads: u64,
    /// set when every runnable task is blocked on another: (site, streak)
    pub deadlock: Option<String>,
    /// number of caller tasks (ids below this); higher ids are threads spawned by the crate
    primary: usize,
    /// the episode is over for the scheduler: every parked thread continues on its own
    released: bool,
    /// decisions taken after the last caller finished (helper threads winding down)
    tail_decisions: u64,
    pub spawned: u64,
    /// fixed per episode: seeds choices of the environment the crate may look at
    episode_key: u64,
    last_runner: usize,
    same_runner_sync: u64,
    pub env_reads: u64,
}

pub struct Sim {
    m: Mutex<State>,
    cvs: Vec<Condvar>,
    main_cv: Condvar,
    released: std::sync::atomic::AtomicBool,
}

struct TaskCtx {
    sim: Arc<Sim>,
    id: usize,
    op_points: u32,
    crash_at: Option<u32>,
    /// crash at the n-th (0-based) time this named site is reached within the operation
    crash_site: Option<(String, u32)>,
    crash_site_seen: u32,
}

thread_local! {
    static CUR: RefCell<Option<TaskCtx>> = const { RefCell::new(None) };
    /// while set, ordinary scheduling points of this task are passed without asking the
    /// scheduler (used inside long bursts of identical calls; blocked points still yield)
    static QUIET: std::cell::Cell<bool> = const { std::cell::Cell::new(false) };
}

pub fn set_quiet(on: bool) {
    QUIET.with(|q| q.set(on));
}

fn site_hash(s: &str) -> u64 {
    digest128(&[s.as_bytes()])[0]
}

impl Sim {
    pub fn new(n_tasks: usize, spec: &SchedSpec) -> Arc<Sim> {
        let mut rng = Rng::new(spec.seed);
        // distinct random priorities (PCT); harmless for other policies
        let mut prio: Vec<u64> = (0..n_tasks as u64).map(|i| 1000 + i).collect();
        for i in (1..prio.len()).rev() {
            let j = rng.usize_below(i + 1);
            prio.swap(i, j);
        }
        Arc::new(Sim {
            m: Mutex::new(State {
                current: NOBODY,
                alive: vec![true; n_tasks],
                in_op: vec![false; n_tasks],
                policy: spec.policy.clone(),
                rng,
                prio,
                decisions: Vec::new(),
                trace: 0,
                stats: SchedStats::default(),
                site_ids: BTreeMap::new(),
                blocked_streak: 0,
                sim_clock_ns: 0,
                clock_reads: 0,
                deadlock: None,
                primary: n_tasks,
                released: false,
                tail_decisions: 0,
                spawned: 0,
                episode_key: crate::rng::mix(spec.seed, 0xE17_0E17),
                last_runner: NOBODY,
                same_runner_sync: 0,
                env_reads: 0,
            }),
            cvs: (0..MAX_TASKS.max(n_tasks)).map(|_| Condvar::new()).collect(),
            main_cv: Condvar::new(),
            released: std::sync::atomic::AtomicBool::new(false),
        })
    }

    fn lock(&self) -> MutexGuard<'_, State> {
        self.m.lock().unwrap_or_else(|e| e.into_inner())
    }

    /// Called by the episode's main thread after all task threads exist.
    pub fn start(&self) {
        let mut st = self.lock();
        if st.alive.iter().any(|a| *a) {
            let next = st.choose(NOBODY, "start", true);
            st.decisions.push(next as u8);
            st.stats.decisions += 1;
            st.current = next;
            self.cvs[next].notify_one();
        }
    }

    /// Blocks the main thread until every task has exited. Returns false if no
    /// scheduling decision happened for `stall_secs` (a task is blocked in the
    /// kernel while holding the baton: a hang of the simulation, not a verdict).
    pub fn wait_all_done(&self, stall_secs: u64) -> bool {
        let mut st = self.lock();
        let mut last = st.stats.decisions;
        let mut since = std::time::Instant::now();
        while !st.released && st.alive.iter().any(|a| *a) {
            let (g, _) = self
                .main_cv
                .wait_timeout(st, std::time::Duration::from_millis(500))
                .unwrap_or_else(|e| e.into_inner());
            st = g;
            if st.stats.decisions != last {
                last = st.stats.decisions;
                since = std::time::Instant::now();
                if last > 20_000_000 {
                    // an episode that keeps deciding without ending (a livelock under the
                    // simulated schedule) is treated like a hang: no verdict, the worker ends
                    return false;
                }
            } else if since.elapsed().as_secs() >= stall_secs {
                return false;
            }
        }
        true
    }

    pub fn deadlock(&self) -> Option<String> {
        self.lock().deadlock.clone()
    }

    pub fn snapshot(&self) -> (Vec<u8>, u64, SchedStats) {
        let st = self.lock();
        let mut stats = st.stats.clone();
        stats.clock_reads = st.clock_reads;
        stats.simulated_ns = st.sim_clock_ns;
        stats.spawned_threads = st.spawned;
        stats.env_reads = st.env_reads;
        (st.decisions.clone(), st.trace, stats)
    }

    fn wait_for_baton<'a>(&'a self, mut st: MutexGuard<'a, State>, id: usize) -> MutexGuard<'a, State> {
        while st.current != id && !st.released {
            st = self.cvs[id].wait(st).unwrap_or_else(|e| e.into_inner());
        }
        st
    }

    /// The callers are done but threads the crate spawned are still alive: let them wind down
    /// under the scheduler for a while; once they are all idle (or after a bounded number of
    /// decisions) hand them back to the operating system.
    fn release(&self, st: &mut State) {
        st.released = true;
        st.current = NOBODY;
        self.released.store(true, std::sync::atomic::Ordering::SeqCst);
        FOREIGN_THREADS.store(true, std::sync::atomic::Ordering::SeqCst);
        for cv in &self.cvs {
            cv.notify_all();
        }
        self.main_cv.notify_all();
    }

    pub fn is_released(&self) -> bool {
        self.released.load(std::sync::atomic::Ordering::SeqCst)
    }

    fn yield_point(&self, id: usize, site: &'static str) {
        let mut st = self.lock();
        if st.released {
            return;
        }
        debug_assert_eq!(st.current, id, "task ran without the baton");
        if st.in_tail() {
            st.tail_decisions += 1;
            if st.tail_decisions > 3000 {
                self.release(&mut st);
                return;
            }
        }
        let sid = match st.site_ids.get(site) {
            Some(v) => *v,
            None => {
                let v = site_hash(site);
                st.site_ids.insert(site, v);
                v
            }
        };
        st.stats.points += 1;
        st.blocked_streak = 0;
        if site.starts_with("sync:") {
            st.stats.sync_points += 1;
        }
        st.trace = fold(st.trace, sid ^ ((id as u64) << 56));
        st.stats.sites.entry(site.to_string()).or_insert([0; 3])[0] += 1;
        let next = st.choose(id, site, false);
        st.decisions.push(next as u8);
        st.stats.decisions += 1;
        st.trace = fold(st.trace, next as u64);
        if next != id {
            st.stats.switches += 1;
            if st.in_op[id] {
                st.stats.switches_inside_op += 1;
            }
            st.stats.sites.get_mut(site).unwrap()[1] += 1;
            st.current = next;
            self.cvs[next].notify_one();
            let _st = self.wait_for_baton(st, id);
        }
    }

    fn note_crash(&self, site: &'static str) {
        let mut st = self.lock();
        st.stats.crashes += 1;
        st.stats.sites.entry(site.to_string()).or_insert([0; 3])[2] += 1;
        st.trace = fold(st.trace, 0xC4A5 ^ site_hash(site));
    }

    /// The caller cannot proceed until another task releases something. Some *other*
    /// task must run (uniformly chosen, whatever the policy). Returns false when there
    /// is nobody else to run; `Err(())` when every task has been blocked for so long
    /// that the episode is deadlocked.
    fn yield_blocked(&self, id: usize, site: &'static str) -> Result<bool, ()> {
        let mut st = self.lock();
        if st.released {
            return Ok(false);
        }
        debug_assert_eq!(st.current, id, "task ran without the baton");
        st.stats.points += 1;
        st.stats.blocked_yields += 1;
        st.stats.sites.entry(site.to_string()).or_insert([0; 3])[0] += 1;
        st.blocked_streak += 1;
        if st.in_tail() {
            // only helper threads are left; all of them idle = the episode is over
            st.tail_decisions += 1;
            let n = st.alive.iter().filter(|a| **a).count() as u64;
            if st.blocked_streak > 64 + 16 * n || st.tail_decisions > 3000 {
                self.release(&mut st);
                return Ok(false);
            }
        }
        let limit = 2000 + 500 * st.alive.len() as u64;
        if st.blocked_streak > limit {
            if FOREIGN_THREADS.load(std::sync::atomic::Ordering::SeqCst) {
                // a free-running thread may be what everybody waits for: block for real instead
                return Ok(false);
            }
            if st.deadlock.is_none() {
                st.deadlock = Some(format!("{} consecutive blocked scheduling points at {}: every runnable task waits for another", st.blocked_streak, site));
            }
            return Err(());
        }
        let others = st.others(id, None);
        if others.is_empty() {
            return Ok(false);
        }
        let next = others[st.rng.usize_below(others.len())];
        st.decisions.push(next as u8);
        st.stats.decisions += 1;
        st.trace = fold(st.trace, 0xB10C ^ ((id as u64) << 8) ^ next as u64);
        st.stats.switches += 1;
        if st.in_op[id] {
            st.stats.switches_inside_op += 1;
        }
        st.stats.sites.get_mut(site).unwrap()[1] += 1;
        st.current = next;
        self.cvs[next].notify_one();
        let _st = self.wait_for_baton(st, id);
        Ok(true)
    }

    fn task_exit(&self, id: usize) {
        let mut st = self.lock();
        st.alive[id] = false;
        st.in_op[id] = false;
        if st.released {
            return;
        }
        if st.alive.iter().any(|a| *a) {
            let next = st.choose(id, "exit", true);
            st.decisions.push(next as u8);
            st.stats.decisions += 1;
            st.trace = fold(st.trace, 0xE0 ^ next as u64);
            st.current = next;
            self.cvs[next].notify_one();
        } else {
            st.current = NOBODY;
            self.main_cv.notify_all();
        }
    }
}

impl State {
    /// every caller task has finished; only threads spawned by the crate are still alive
    fn in_tail(&self) -> bool {
        !self.alive[..self.primary.min(self.alive.len())].iter().any(|a| *a)
    }

    fn others(&self, id: usize, excluded: Option<usize>) -> Vec<usize> {
        (0..self.alive.len())
            .filter(|&t| self.alive[t] && t != id && Some(t) != excluded)
            .collect()
    }

    /// The scheduling decision. `must_leave`: the deciding task cannot continue (start / exit).
    fn choose(&mut self, id: usize, site: &'static str, must_leave: bool) -> usize {
        let alive: Vec<usize> = (0..self.alive.len()).filter(|&t| self.alive[t]).collect();
        debug_assert!(!alive.is_empty());
        let stay = if must_leave { None } else { Some(id) };
        let n_dec = self.stats.decisions;
        // An explicit yield or sleep means "let somebody else run": every policy honours it
        // (a spin-wait with `yield_now` is correct under any fair scheduler, and would spin for
        // ever under a policy that never leaves the running task).
        // ... and so does a task that has passed thousands of sync points in a row while others
        // are waiting (a spin on an atomic flag): no real scheduler starves the others for ever.
        if site.starts_with("sync:") && stay == Some(self.last_runner) {
            self.same_runner_sync += 1;
        } else {
            self.same_runner_sync = 0;
        }
        self.last_runner = id;
        let spinning = self.same_runner_sync > 500;
        if spinning {
            self.same_runner_sync = 0;
        }
        if let (Some(me), true) = (stay, site == "sync:yield_now" || site == "sync:sleep" || spinning) {
            let o = self.others(me, None);
            if !o.is_empty() {
                return o[self.rng.usize_below(o.len())];
            }
        }
        match self.policy.clone() {
            Policy::Sequential => stay.unwrap_or(alive[0]),
            Policy::RunToCompletion => stay.unwrap_or_else(|| alive[self.rng.usize_below(alive.len())]),
            Policy::OpBoundary(p) => match stay {
                Some(me) => {
                    if site == "op:boundary" && self.rng.prob(p) {
                        let o = self.others(me, None);
                        if o.is_empty() {
                            me
                        } else {
                            o[self.rng.usize_below(o.len())]
                        }
                    } else {
                        me
                    }
                }
                None => alive[self.rng.usize_below(alive.len())],
            },
            Policy::Uniform => alive[self.rng.usize_below(alive.len())],
            Policy::Sticky(p) => match stay {
                Some(me) => {
                    if self.rng.prob(p) {
                        let o = self.others(me, None);
                        if o.is_empty() {
                            me
                        } else {
                            o[self.rng.usize_below(o.len())]
                        }
                    } else {
                        me
                    }
                }
                None => alive[self.rng.usize_below(alive.len())],
            },
            Policy::Starve(victim, p) => {
                let pick_from = |s: &mut State, cands: Vec<usize>| -> Option<usize> {
                    if cands.is_empty() {
                        None
                    } else {
                        Some(cands[s.rng.usize_below(cands.len())])
                    }
                };
                match stay {
                    Some(me) if me != victim => {
                        if self.rng.prob(p) {
                            let o = self.others(me, Some(victim));
                            pick_from(self, o).unwrap_or(me)
                        } else {
                            me
                        }
                    }
                    Some(me) => {
                        // the victim is running only because nobody else could; leave as soon as possible
                        let o = self.others(me, None);
                        pick_from(self, o).unwrap_or(me)
                    }
                    None => {
                        let o: Vec<usize> = alive.iter().copied().filter(|&t| t != victim).collect();
                        pick_from(self, o).unwrap_or(alive[0])
                    }
                }
            }
            Policy::Pct(changes) => {
                if let Some(me) = stay {
                    if changes.contains(&n_dec) {
                        let low = self.prio.iter().copied().min().unwrap_or(1);
                        self.prio[me] = low.saturating_sub(1);
                    }
                }
                *alive.iter().max_by_key(|&&t| self.prio[t]).unwrap()
            }
        }
    }
}

// ---------------------------------------------------------------------------
// Task-side API
// ---------------------------------------------------------------------------

/// The process-wide hook installed into `fast_qr::verif_hooks`. Threads that
/// are not simulation tasks see a no-op.
pub fn hook(site: &'static str) {
    hook_impl(site, true)
}

/// A scheduling point that must never unwind (it is reached inside an `extern "C"` frame:
/// the system-call shims). It yields like any other point but is never a crash point.
pub fn hook_no_unwind(site: &'static str) {
    hook_impl(site, false)
}

fn hook_impl(site: &'static str, may_crash: bool) {
    if QUIET.with(|q| q.get()) {
        return;
    }
    let info = CUR.with(|c| {
        let mut b = c.borrow_mut();
        b.as_mut().map(|t| {
            if !may_crash {
                return (t.sim.clone(), t.id, false);
            }
            let n = t.op_points;
            t.op_points += 1;
            let mut crash = t.crash_at == Some(n);
            if let Some((name, nth)) = &t.crash_site {
                if name == site {
                    if t.crash_site_seen == *nth {
                        crash = true;
                    }
                    t.crash_site_seen += 1;
                }
            }
            (t.sim.clone(), t.id, crash)
        })
    });
    let Some((sim, id, crash)) = info else { return };
    if sim.is_released() {
        // the episode this thread belonged to is over: from now on it is an ordinary thread
        CUR.with(|c| *c.borrow_mut() = None);
        return;
    }
    // never kill a caller that is already unwinding (a destructor of the crate reached a
    // scheduling point while a panic - the crate's own or an injected one - is in flight):
    // a second panic there would abort the process instead of ending one operation
    if crash && !std::thread::panicking() {
        sim.note_crash(site);
        // kills this one caller mid-operation, exactly as a panicking user callback would
        std::panic::panic_any(crate::SimCrash("crash_at_point"));
    }
    sim.yield_point(id, site);
}

/// The simulated clock (facade build only). Time moves only when it is read: every reading
/// first jumps forward by a seeded amount — usually microseconds, sometimes milliseconds,
/// seconds, hours or days — so timeouts, time-to-live caches and timestamps meet in a few
/// milliseconds of real time what a deployment meets in months. `sleep_ns` > 0 adds a sleep.
pub fn clock_hook(sleep_ns: u64) -> Option<u64> {
    let info = CUR.with(|c| c.borrow().as_ref().map(|t| (t.sim.clone(), t.id)));
    let (sim, _id) = info?;
    if sim.is_released() {
        CUR.with(|c| *c.borrow_mut() = None);
        return None;
    }
    let mut st = sim.lock();
    st.clock_reads += 1;
    // Inside an operation time passes the way it does for a thread that may be descheduled:
    // mostly microseconds, now and then milliseconds, rarely seconds (an overloaded machine).
    // The long gaps - hours, days - lie *between* operations (see `idle_gap`): a one-hour
    // timeout does not fire because a helper thread was slow, but a one-hour cache does expire
    // between two requests.
    let jump = match st.rng.weighted(&[50, 20, 14, 11, 5]) {
        0 => st.rng.range(1, 5_000),                         // < 5 us
        1 => st.rng.range(5_000, 5_000_000),                 // < 5 ms
        2 => st.rng.range(5_000_000, 500_000_000),           // < 0.5 s
        3 => st.rng.range(500_000_000, 3_000_000_000),       // < 3 s
        _ => st.rng.range(3_000_000_000, 10_000_000_000),    // < 10 s
    };
    st.sim_clock_ns = st.sim_clock_ns.saturating_add(jump).saturating_add(sleep_ns);
    st.trace = fold(st.trace, 0xC10C ^ st.sim_clock_ns);
    Some(st.sim_clock_ns)
}

/// Hook installed into the std/core facades (facade build only): a scheduling point at
/// every sync-primitive or atomic access; `blocked` = the caller must wait for another task.
pub fn sync_hook(site: &'static str, blocked: bool) -> bool {
    if !blocked {
        let is_task = CUR.with(|c| c.borrow().is_some());
        hook(site);
        return is_task;
    }
    let info = CUR.with(|c| c.borrow().as_ref().map(|t| (t.sim.clone(), t.id)));
    let Some((sim, id)) = info else { return false };
    if sim.is_released() {
        CUR.with(|c| *c.borrow_mut() = None);
        return false;
    }
    match sim.yield_blocked(id, site) {
        Ok(y) => y,
        Err(()) => {
            if std::thread::panicking() {
                // cannot unwind twice; let the caller block for real (the watchdog ends the episode)
                return false;
            }
            // deadlock: kill this operation so that the episode can end; the episode reports I6
            std::panic::panic_any(crate::SimCrash("deadlock"));
        }
    }
}

pub fn install_hook() {
    #[cfg(feature = "facade")]
    {
        fqcore::__fqsim::install(sync_hook);
        fqcore::__fqsim::install_clock(clock_hook);
        fqcore::__fqsim::install_ctl(ctl_hook);
    }
    // false only if already installed by this process, which is fine
    let _ = fast_qr::verif_hooks::install(hook);
}

/// Binds the calling thread to task `id` and blocks until it first receives the baton.
pub fn task_enter(sim: &Arc<Sim>, id: usize) {
    CUR.with(|c| {
        *c.borrow_mut() = Some(TaskCtx {
            sim: sim.clone(),
            id,
            op_points: 0,
            crash_at: None,
            crash_site: None,
            crash_site_seen: 0,
        })
    });
    let st = sim.lock();
    let _st = sim.wait_for_baton(st, id);
}

pub fn task_leave(sim: &Arc<Sim>, id: usize) {
    CUR.with(|c| *c.borrow_mut() = None);
    sim.task_exit(id);
}

/// Where (if anywhere) the simulator kills the operation.
#[derive(Clone, Debug, Default, PartialEq)]
pub struct Crash {
    pub at: Option<u32>,
    pub site: Option<(String, u32)>,
}

/// Marks the start of an operation: arms the crash point and resets the per-op point counter.
pub fn op_begin(sim: &Arc<Sim>, id: usize, crash: &Crash) {
    CUR.with(|c| {
        if let Some(t) = c.borrow_mut().as_mut() {
            t.op_points = 0;
            t.crash_at = crash.at;
            t.crash_site = crash.site.clone();
            t.crash_site_seen = 0;
        }
    });
    sim.lock().in_op[id] = true;
}

/// Returns how many points the operation passed.
pub fn op_end(sim: &Arc<Sim>, id: usize) -> u32 {
    sim.lock().in_op[id] = false;
    CUR.with(|c| {
        c.borrow_mut()
            .as_mut()
            .map(|t| {
                t.crash_at = None;
                t.crash_site = None;
                t.op_points
            })
            .unwrap_or(0)
    })
}

/// Scheduling point between two operations of a task. Simulated time may make a long jump
/// here: the caller was idle for a while (seconds to weeks) before its next request.
pub fn op_boundary(sim: &Arc<Sim>, id: usize) {
    {
        let mut st = sim.lock();
        // ... and only while no caller is inside an operation: an idle *system*, not one caller
        // stretching another caller's call over days
        if st.clock_reads > 0 && !st.in_op.iter().any(|b| *b) {
            // only once the crate has shown that it looks at a clock at all (keeps episodes of a
            // tree that reads no clock identical to what they were)
            let gap = match st.rng.weighted(&[70, 10, 10, 7, 3]) {
                0 => 0,
                1 => st.rng.range(1, 1_000_000_000),                                // < 1 s
                2 => st.rng.range(1_000_000_000, 3_600_000_000_000),                // < 1 h
                3 => st.rng.range(3_600_000_000_000, 86_400_000_000_000),           // < 1 day
                _ => st.rng.range(86_400_000_000_000, 40 * 86_400_000_000_000),     // < 40 days
            };
            st.sim_clock_ns = st.sim_clock_ns.saturating_add(gap);
        }
    }
    sim.yield_point(id, "op:boundary");
}

// ---------------------------------------------------------------------------
// Threads started by the crate under test (facade build only)
// ---------------------------------------------------------------------------

#[cfg(feature = "facade")]
mod spawned {
    use super::*;
    use std::collections::HashMap;
    use std::sync::atomic::{AtomicU64, Ordering};

    static NEXT: AtomicU64 = AtomicU64::new(1);
    static TOKENS: Mutex<Option<HashMap<u64, (Arc<Sim>, usize)>>> = Mutex::new(None);

    fn tokens<R>(f: impl FnOnce(&mut HashMap<u64, (Arc<Sim>, usize)>) -> R) -> R {
        let mut g = TOKENS.lock().unwrap_or_else(|e| e.into_inner());
        f(g.get_or_insert_with(HashMap::new))
    }

    pub fn ctl(op: u32, arg: u64) -> u64 {
        use fqcore::__fqsim::{TASK_DONE, TASK_ENTER, TASK_EXIT, TASK_IS, TASK_KEY, TASK_RAND, TASK_SPAWN};
        match op {
            TASK_IS => {
                let t = CUR.with(|c| c.borrow().as_ref().map(|t| t.sim.clone()));
                match t {
                    Some(sim) if !sim.is_released() => 1,
                    _ => 0,
                }
            }
            TASK_SPAWN => {
                let info = CUR.with(|c| c.borrow().as_ref().map(|t| (t.sim.clone(), t.id)));
                let Some((sim, parent)) = info else { return 0 };
                if sim.is_released() {
                    return 0;
                }
                let mut st = sim.lock();
                if st.released || st.alive.len() >= MAX_TASKS {
                    return 0;
                }
                let id = st.alive.len();
                st.alive.push(true);
                st.in_op.push(false); // not a caller: its work happens inside some caller's operation
                let p = 500 + st.rng.below(1000);
                st.prio.push(p);
                st.spawned += 1;
                st.trace = fold(st.trace, 0x5BA3 ^ ((parent as u64) << 8) ^ id as u64);
                drop(st);
                let token = NEXT.fetch_add(1, Ordering::SeqCst);
                tokens(|m| m.insert(token, (sim, id)));
                token
            }
            TASK_ENTER => {
                let e = tokens(|m| m.get(&arg).cloned());
                if let Some((sim, id)) = e {
                    task_enter(&sim, id);
                }
                0
            }
            TASK_EXIT => {
                let e = tokens(|m| m.remove(&arg));
                if let Some((sim, id)) = e {
                    task_leave(&sim, id);
                }
                0
            }
            TASK_DONE => {
                let e = tokens(|m| m.get(&arg).cloned());
                match e {
                    None => 1,
                    Some((sim, id)) => {
                        let st = sim.lock();
                        if st.released || !st.alive[id] {
                            1
                        } else {
                            0
                        }
                    }
                }
            }
            TASK_KEY => {
                let info = CUR.with(|c| c.borrow().as_ref().map(|t| t.sim.clone()));
                match info {
                    Some(sim) if !sim.is_released() => {
                        let mut st = sim.lock();
                        st.env_reads += 1;
                        st.episode_key | 1
                    }
                    _ => 0,
                }
            }
            TASK_RAND => {
                let info = CUR.with(|c| c.borrow().as_ref().map(|t| t.sim.clone()));
                match info {
                    Some(sim) if arg > 0 && !sim.is_released() => {
                        let mut st = sim.lock();
                        st.rng.below(arg)
                    }
                    _ => 0,
                }
            }
            _ => 0,
        }
    }
}

#[cfg(feature = "facade")]
fn ctl_hook(op: u32, arg: u64) -> u64 {
    spawned::ctl(op, arg)
}
