//! C14 — building/rendering is a pure function of input and final options, on
//! any thread, in any order. Episode description, execution under the baton
//! scheduler, reference model and invariants I1–I5.

pub mod anchors;
pub mod driver;
pub mod egen;
pub mod sched;
pub mod shrink;

use std::collections::{BTreeMap, BTreeSet, HashMap};
use std::panic::{catch_unwind, AssertUnwindSafe};
use std::sync::{Arc, Mutex};

use fast_qr::convert::image::ImageBuilder;
use fast_qr::convert::svg::SvgBuilder;
use fast_qr::convert::Builder as _;
use fast_qr::{QRBuilder, QRCode};
use serde::{Deserialize, Serialize};

use crate::rng::{digest128, fold, hex128};
use crate::spec::*;
use sched::{SchedSpec, SchedStats, Sim};

pub const N_BUILDER_SLOTS: usize = 4;
pub const N_QR_SLOTS: usize = 4;
pub const N_RENDER_SLOTS: usize = 2;
/// Raster renders are restricted to symbols up to this size (V6 = 41 modules) to keep runs short.
pub const MAX_RASTER_QR_SIZE: usize = 41;
/// No scheduling decision for this long = the simulation hangs (see `run_episode`).
pub const STALL_SECS: u64 = 8;

// ---------------------------------------------------------------------------
// Episode description
// ---------------------------------------------------------------------------

#[derive(Clone, Copy, Debug, PartialEq, Eq, Serialize, Deserialize)]
pub enum QrRef {
    Local(u8),
    Shared(u8),
}

#[derive(Clone, Debug, PartialEq, Serialize, Deserialize)]
pub enum Op {
    NewBuilder { slot: u8, input: u8 },
    Set { slot: u8, s: BSetter },
    Build { slot: u8, out: u8 },
    BuildShared { shared: u8, out: u8 },
    /// a brand-new builder with each setter called once, built once
    BuildFresh { input: u8, mode: Option<u8>, ecl: Option<u8>, version: Option<u8>, mask: Option<u8>, out: u8 },
    CloneQr { from: u8, to: u8 },
    /// `QRCode::default(17 + 4 * version)`: a blank code that no build produced (the first thing a
    /// process renders may well be one)
    BlankQr { to: u8, version: u8 },
    /// a copy of a QR code with one module changed by hand (`QRCode::data` is public): the value
    /// bit (xor 1) or a module-type bit (xor 2, 4, 8) of module `pos % size²`
    TweakQr { from: u8, to: u8, pos: u32, xor: u8 },
    NewSvg { slot: u8 },
    SvgSet { slot: u8, s: RSetter },
    SvgRender { slot: u8, qr: QrRef },
    NewImg { slot: u8 },
    ImgSet { slot: u8, s: RSetter },
    ImgRender { slot: u8, qr: QrRef, pixmap: bool },
    /// terminal rendering: `to_str()`, or (print = true) `print()` with the bytes it sends to fd 1 captured
    Term {
        qr: QrRef,
        #[serde(default, skip_serializing_if = "std::ops::Not::not")]
        print: bool,
    },
    /// one scalar setter called `n` times in a row on a QR builder (`what` 0: mask), an SVG
    /// renderer (1: margin) or an image renderer (2: margin): only the last value counts
    SetBurst { what: u8, slot: u8, n: u64 },
    /// the same builder built `n` times in a row: every result must equal the first
    Burst { slot: u8, n: u32 },
    /// the same SVG renderer rendering the same QR code `n` times in a row
    RenderBurst { slot: u8, qr: QrRef, n: u32 },
    Nop,
}

impl Op {
    pub fn kind(&self) -> &'static str {
        match self {
            Op::NewBuilder { .. } => "NewBuilder",
            Op::Set { .. } => "Set",
            Op::Build { .. } => "Build",
            Op::BuildShared { .. } => "BuildShared",
            Op::BuildFresh { .. } => "BuildFresh",
            Op::CloneQr { .. } => "CloneQr",
            Op::TweakQr { .. } => "TweakQr",
            Op::BlankQr { .. } => "BlankQr",
            Op::NewSvg { .. } => "NewSvg",
            Op::SvgSet { .. } => "SvgSet",
            Op::SvgRender { .. } => "SvgRender",
            Op::NewImg { .. } => "NewImg",
            Op::ImgSet { .. } => "ImgSet",
            Op::ImgRender { .. } => "ImgRender",
            Op::Term { .. } => "Term",
            Op::SetBurst { .. } => "SetBurst",
            Op::Burst { .. } => "Burst",
            Op::RenderBurst { .. } => "RenderBurst",
            Op::Nop => "Nop",
        }
    }
    pub fn is_build(&self) -> bool {
        matches!(self, Op::Build { .. } | Op::BuildShared { .. } | Op::BuildFresh { .. } | Op::Burst { .. })
    }
    pub fn is_render(&self) -> bool {
        matches!(self, Op::SvgRender { .. } | Op::ImgRender { .. } | Op::Term { .. } | Op::RenderBurst { .. })
    }
}

#[derive(Clone, Debug, PartialEq, Serialize, Deserialize)]
pub struct OpSpec {
    pub op: Op,
    /// fault `crash_at_point`: unwind out of the k-th hook site this operation reaches
    #[serde(default, skip_serializing_if = "Option::is_none")]
    pub crash_at: Option<u32>,
    /// fault `crash_at_point`, targeted: unwind out of the n-th time the named site is reached
    #[serde(default, skip_serializing_if = "Option::is_none")]
    pub crash_site: Option<(String, u32)>,
    /// fault `callback_panic`: the user callback fails at its k-th invocation
    #[serde(default, skip_serializing_if = "Option::is_none")]
    pub cb_panic_at: Option<u32>,
}

#[derive(Clone, Debug, PartialEq, Serialize, Deserialize)]
pub struct BuilderScript {
    pub input: u8,
    pub setters: Vec<BSetter>,
}

#[derive(Clone, Debug, PartialEq, Serialize, Deserialize)]
pub struct Episode {
    pub index: u64,
    pub seed: u64,
    /// "fault_free" or "faulty"
    pub class: String,
    pub sched: SchedSpec,
    #[serde(with = "hexvec")]
    pub inputs: Vec<Vec<u8>>,
    /// built by the main thread before the tasks start, then only `build(&self)` is called on them
    pub shared_builders: Vec<BuilderScript>,
    /// QR codes built before the tasks start and rendered concurrently through `Arc<QRCode>`
    pub shared_qrs: Vec<BuilderScript>,
    pub tasks: Vec<Vec<OpSpec>>,
    /// generator patterns this episode contains (reach measure only; the run does not read it)
    #[serde(default, skip_serializing_if = "Vec::is_empty")]
    pub patterns: Vec<String>,
}

mod hexvec {
    use crate::spec::hexbytes::{from_hex, to_hex};
    use serde::{Deserialize, Deserializer, Serialize, Serializer};
    pub fn serialize<S: Serializer>(v: &Vec<Vec<u8>>, s: S) -> Result<S::Ok, S::Error> {
        v.iter().map(|b| to_hex(b)).collect::<Vec<_>>().serialize(s)
    }
    pub fn deserialize<'de, D: Deserializer<'de>>(d: D) -> Result<Vec<Vec<u8>>, D::Error> {
        let v = Vec::<String>::deserialize(d)?;
        v.iter().map(|s| from_hex(s).map_err(serde::de::Error::custom)).collect()
    }
}

impl Episode {
    pub fn n_ops(&self) -> usize {
        self.tasks.iter().map(|t| t.len()).sum()
    }
    pub fn input(&self, i: u8) -> Vec<u8> {
        if self.inputs.is_empty() {
            return Vec::new();
        }
        self.inputs[(i as usize) % self.inputs.len()].clone()
    }
}

// ---------------------------------------------------------------------------
// Oracle
// ---------------------------------------------------------------------------

#[derive(Clone, Debug, PartialEq, Eq, Serialize, Deserialize)]
pub struct Violation {
    /// I1_same_state_same_outcome | I2_pristine_anchor | I3_render_modified_qr | I5_...
    pub invariant: String,
    pub op_kind: String,
    pub task: usize,
    pub op_index: usize,
    pub detail: String,
}

impl Violation {
    pub fn class(&self) -> String {
        format!("{}:{}", self.invariant, self.op_kind)
    }
}

#[derive(Clone, Debug, Default, Serialize, Deserialize)]
pub struct Pristine {
    /// model key -> outcome observed in a fresh process that did exactly this one thing
    pub builds: BTreeMap<String, Outcome>,
    pub renders: BTreeMap<String, Outcome>,
}

#[derive(Default, Clone, Debug, Serialize, Deserialize)]
pub struct OracleStats {
    pub ops: BTreeMap<String, u64>,
    pub outcomes: BTreeMap<String, u64>,
    pub comparisons: u64,
    pub anchor_comparisons: u64,
    pub render_anchor_comparisons: u64,
    pub qr_unmodified_checks: u64,
    pub reissued_after_fault: u64,
    #[serde(default)]
    pub ondemand_pristine_comparisons: u64,
    pub probes: BTreeMap<String, u64>,
    pub distinct_states: u64,
}

impl OracleStats {
    pub fn probe(&mut self, k: &str) {
        *self.probes.entry(k.to_string()).or_insert(0) += 1;
    }
    pub fn merge(&mut self, o: &OracleStats) {
        for (k, v) in &o.ops {
            *self.ops.entry(k.clone()).or_insert(0) += v;
        }
        for (k, v) in &o.outcomes {
            *self.outcomes.entry(k.clone()).or_insert(0) += v;
        }
        for (k, v) in &o.probes {
            *self.probes.entry(k.clone()).or_insert(0) += v;
        }
        self.comparisons += o.comparisons;
        self.anchor_comparisons += o.anchor_comparisons;
        self.render_anchor_comparisons += o.render_anchor_comparisons;
        self.qr_unmodified_checks += o.qr_unmodified_checks;
        self.reissued_after_fault += o.reissued_after_fault;
        self.ondemand_pristine_comparisons += o.ondemand_pristine_comparisons;
        self.distinct_states += o.distinct_states;
    }
}

/// Everything a fresh process needs to reproduce one model state from scratch: one build
/// and, for render states, one render of its result. Setters are in *canonical* order
/// (derived from the model, not from the history that led to the state).
#[derive(Clone, Debug, Serialize, Deserialize)]
pub struct OneSpec {
    pub cfg: QrCfg,
    /// render `QRCode::default(size)` instead of building `cfg`
    #[serde(default, skip_serializing_if = "Option::is_none")]
    pub blank: Option<usize>,
    /// hand edits applied to the built QR code before rendering: (module index, xor)
    #[serde(default, skip_serializing_if = "Vec::is_empty")]
    pub tweaks: Vec<(u32, u8)>,
    /// ("svg" | "png" | "pixmap" | "term", canonical setter list)
    pub render: Option<(String, Vec<RSetter>)>,
}

struct Seen {
    outcome: Outcome,
    origin: String,
    task: usize,
    before_fault: bool,
    spec: Option<OneSpec>,
    times: u32,
}

pub struct Oracle {
    table: HashMap<String, Seen>,
    pub violation: Option<Violation>,
    pub stats: OracleStats,
    pub outcome_hash: u64,
    /// shared builder -> number of builds of it currently in flight
    in_flight: Vec<u32>,
    faults_so_far: u64,
    /// keys in the order they were first observed by a task (deterministic iteration)
    first_seen_order: Vec<String>,
}

impl Oracle {
    fn new(pristine: &Pristine, n_shared_builders: usize) -> Oracle {
        let mut table = HashMap::new();
        for (k, o) in pristine.builds.iter().chain(pristine.renders.iter()) {
            table.insert(
                k.clone(),
                Seen {
                    outcome: o.clone(),
                    origin: "pristine".into(),
                    task: usize::MAX,
                    before_fault: true,
                    spec: None,
                    times: 0,
                },
            );
        }
        Oracle {
            table,
            violation: None,
            stats: OracleStats::default(),
            outcome_hash: 0,
            in_flight: vec![0; n_shared_builders],
            faults_so_far: 0,
            first_seen_order: Vec::new(),
        }
    }

    /// I1/I2: the same model state must always produce the same outcome.
    fn observe(&mut self, key: &str, outcome: &Outcome, task: usize, op_index: usize, op_kind: &str, is_render: bool) {
        self.observe_spec(key, outcome, task, op_index, op_kind, is_render, None)
    }

    #[allow(clippy::too_many_arguments)]
    fn observe_spec(&mut self, key: &str, outcome: &Outcome, task: usize, op_index: usize, op_kind: &str, is_render: bool, spec: Option<OneSpec>) {
        *self.stats.outcomes.entry(outcome.short().split('(').next().unwrap_or("?").to_string()).or_insert(0) += 1;
        self.outcome_hash = fold(self.outcome_hash, digest128(&[key.as_bytes(), format!("{:?}", outcome).as_bytes()])[0]);
        if outcome.is_died() {
            self.faults_so_far += 1;
            return;
        }
        if *outcome == Outcome::Skipped {
            return;
        }
        match self.table.get_mut(key) {
            None => {
                self.stats.distinct_states += 1;
                self.table.insert(
                    key.to_string(),
                    Seen {
                        outcome: outcome.clone(),
                        origin: if task >= usize::MAX - 1 {
                            format!("setup phase, shared object {} ({})", op_index, op_kind)
                        } else {
                            format!("task {} op {} ({})", task, op_index, op_kind)
                        },
                        task,
                        before_fault: self.faults_so_far == 0,
                        spec,
                        times: 1,
                    },
                );
                self.first_seen_order.push(key.to_string());
            }
            Some(seen) => {
                seen.times += 1;
                let seen = &*seen;
                self.stats.comparisons += 1;
                let pristine = seen.origin == "pristine";
                if pristine {
                    if is_render {
                        self.stats.render_anchor_comparisons += 1;
                    } else {
                        self.stats.anchor_comparisons += 1;
                    }
                } else {
                    if seen.task != task {
                        self.stats.probe("same_state_seen_on_two_tasks");
                    }
                    if seen.before_fault && self.faults_so_far > 0 {
                        self.stats.probe("same_state_before_and_after_fault");
                    }
                }
                if seen.outcome != *outcome && self.violation.is_none() {
                    self.violation = Some(Violation {
                        invariant: if pristine { "I2_pristine_anchor".into() } else { "I1_same_state_same_outcome".into() },
                        op_kind: op_kind.to_string(),
                        task,
                        op_index,
                        detail: format!(
                            "state {} gave {} here but {} at {}",
                            key,
                            outcome.short(),
                            seen.outcome.short(),
                            seen.origin
                        ),
                    });
                }
            }
        }
    }

    fn violate(&mut self, invariant: &str, op_kind: &str, task: usize, op_index: usize, detail: String) {
        if self.violation.is_none() {
            self.violation = Some(Violation {
                invariant: invariant.into(),
                op_kind: op_kind.into(),
                task,
                op_index,
                detail,
            });
        }
    }
}

// ---------------------------------------------------------------------------
// Execution
// ---------------------------------------------------------------------------

struct LocalQr {
    qr: Box<QRCode>,
    /// `Some(size)`: made by `QRCode::default(size)`, not by a build
    blank: Option<usize>,
    /// hand edits this QR code carries on top of what its configuration builds
    tweaks: Vec<(u32, u8)>,
    digest: String,
    /// the configuration this QR code was built from (provenance, for on-demand pristine checks)
    cfg: QrCfg,
}

struct Local {
    builders: Vec<Option<(QRBuilder, QrCfg)>>,
    qrs: Vec<Option<LocalQr>>,
    svgs: Vec<Option<(SvgBuilder, RenderModel)>>,
    imgs: Vec<Option<(ImageBuilder, RenderModel)>>,
}

struct Shared {
    builders: Vec<(QRBuilder, QrCfg)>,
    qrs: Vec<Option<(Box<QRCode>, String, QrCfg)>>,
}

#[derive(Clone, Debug, Serialize, Deserialize)]
pub struct EpisodeResult {
    pub index: u64,
    pub violation: Option<Violation>,
    pub trace_hash: u64,
    pub outcome_hash: u64,
    pub decisions: Vec<u8>,
    pub sched: SchedStats,
    pub oracle: OracleStats,
    pub n_tasks: usize,
    pub n_ops: usize,
    pub policy: String,
    #[serde(default)]
    pub hung: bool,
}

fn classify_panic(p: Box<dyn std::any::Any + Send>) -> Outcome {
    if let Some(c) = p.downcast_ref::<crate::SimCrash>() {
        Outcome::Died(c.0.to_string())
    } else {
        Outcome::Panic(panic_message(p.as_ref()))
    }
}

fn model_after(script: &BuilderScript, ep: &Episode) -> QrCfg {
    let mut m = QrCfg::new(ep.input(script.input));
    for s in &script.setters {
        m.apply(s);
    }
    m
}

fn real_after(script: &BuilderScript, ep: &Episode) -> QRBuilder {
    let mut b = QRBuilder::new(ep.input(script.input));
    for s in &script.setters {
        apply_bsetter(&mut b, s);
    }
    b
}

/// Runs one episode to completion and returns what was observed.
pub fn run_episode(ep: &Episode, pristine: &Pristine) -> EpisodeResult {
    sched::install_hook();
    let n_tasks = ep.tasks.len();
    let sim = Sim::new(n_tasks, &ep.sched);
    let oracle = Arc::new(Mutex::new(Oracle::new(pristine, ep.shared_builders.len())));

    // --- setup phase: no scheduling, no faults ---------------------------------
    // Runs on a helper thread under a watchdog: a tree under test that blocks forever here (a
    // lock or an "in progress" mark left behind by a caller that died in an earlier episode)
    // must end this worker as "hung", not stall the whole check.
    let setup = {
        let ep2 = ep.clone();
        let oracle2 = oracle.clone();
        let (tx, rx) = std::sync::mpsc::channel();
        let h = std::thread::Builder::new()
            .name("setup".into())
            .stack_size(8 << 20)
            .spawn(move || {
                let ep = &ep2;
                let mut shared = Shared { builders: Vec::new(), qrs: Vec::new() };
                for s in &ep.shared_builders {
                    shared.builders.push((real_after(s, ep), model_after(s, ep)));
                }
                for (i, s) in ep.shared_qrs.iter().enumerate() {
                    let model = model_after(s, ep);
                    let b = real_after(s, ep);
                    let r = catch_unwind(AssertUnwindSafe(|| b.build()));
                    let (outcome, qr) = match r {
                        Ok(res) => (build_outcome(&res), res.ok()),
                        Err(p) => (classify_panic(p), None),
                    };
                    oracle2.lock().unwrap().observe(&model.key(), &outcome, usize::MAX - 1, i, "SetupBuild", false);
                    let qr = match (qr, &outcome) {
                        (Some(q), Outcome::Ok(d)) => Some((Box::new(q), d.clone(), model.clone())),
                        _ => None,
                    };
                    shared.qrs.push(qr);
                }
                let _ = tx.send(shared);
            })
            .expect("spawn setup thread");
        match rx.recv_timeout(std::time::Duration::from_secs(STALL_SECS + 4)) {
            Ok(sh) => {
                let _ = h.join();
                Some(sh)
            }
            Err(_) => None,
        }
    };
    let Some(shared) = setup else {
        let (decisions, trace_hash, sstats) = sim.snapshot();
        let o = oracle.lock().unwrap();
        return EpisodeResult {
            index: ep.index,
            violation: o.violation.clone(),
            trace_hash,
            outcome_hash: o.outcome_hash,
            decisions,
            sched: sstats,
            oracle: o.stats.clone(),
            n_tasks,
            n_ops: ep.n_ops(),
            policy: ep.sched.policy.name().to_string(),
            hung: true,
        };
    };
    let shared = Arc::new(shared);
    let ep_arc = Arc::new(ep.clone());

    // --- tasks ---------------------------------------------------------------
    // A caller is either a thread made for this episode or one of the process's long-lived pool
    // threads (a server's worker threads): what a tree under test keeps per thread then lives
    // through many episodes, and fresh and old threads meet in one episode.
    let mut handles = Vec::new();
    let mut pooled_done: Vec<std::sync::mpsc::Receiver<()>> = Vec::new();
    let pool_mode = crate::rng::mix(ep.seed, 0x9001) % 10; // 0..3 fresh, 4..6 pooled, 7..9 mixed
    let mut pool_order: Vec<usize> = (0..POOL_SIZE).collect();
    {
        let mut r = crate::rng::Rng::new(crate::rng::mix(ep.seed, 0x9002));
        for i in (1..pool_order.len()).rev() {
            let j = r.usize_below(i + 1);
            pool_order.swap(i, j);
        }
    }
    for id in 0..n_tasks {
        let sim = sim.clone();
        let oracle = oracle.clone();
        let shared = shared.clone();
        let ep = ep_arc.clone();
        let body = move || {
            sched::task_enter(&sim, id);
            let r = catch_unwind(AssertUnwindSafe(|| task_body(&sim, &oracle, &shared, &ep, id)));
            sched::task_leave(&sim, id);
            if let Err(p) = r {
                // a panic outside any operation is a harness bug, never a property violation
                eprintln!("harness error: task {} panicked outside an operation: {}", id, panic_message(p.as_ref()));
                std::process::exit(2);
            }
        };
        let pooled = match pool_mode {
            0..=3 => false,
            4..=6 => true,
            _ => crate::rng::mix(ep_arc.seed, 0x9003 + id as u64) % 2 == 0,
        };
        if pooled && id < POOL_SIZE {
            pooled_done.push(pool_submit(pool_order[id], Box::new(body)));
        } else {
            let h = std::thread::Builder::new().name(format!("task{}", id)).stack_size(8 << 20).spawn(body).expect("spawn task thread");
            handles.push(h);
        }
    }
    sim.start();
    if !sim.wait_all_done(STALL_SECS) {
        // A task is blocked in the kernel while holding the baton (a real blocking primitive
        // the simulator does not own). The threads cannot be recovered: report and let the
        // worker process end. This is a hang of the simulation, never a verdict on the crate.
        let (decisions, trace_hash, sstats) = sim.snapshot();
        let o = oracle.lock().unwrap();
        return EpisodeResult {
            index: ep.index,
            violation: o.violation.clone(),
            trace_hash,
            outcome_hash: o.outcome_hash,
            decisions,
            sched: sstats,
            oracle: o.stats.clone(),
            n_tasks,
            n_ops: ep.n_ops(),
            policy: ep.sched.policy.name().to_string(),
            hung: true,
        };
    }
    for h in handles {
        let _ = h.join();
    }
    for d in pooled_done {
        let _ = d.recv();
    }
    if let Some(d) = sim.deadlock() {
        oracle.lock().unwrap().violate("I6_deadlock", "Episode", usize::MAX - 1, 0, d);
    }

    // --- episode end: shared QR codes must be untouched (I3) ------------------
    {
        let mut o = oracle.lock().unwrap();
        for (i, q) in shared.qrs.iter().enumerate() {
            if let Some((qr, d, _)) = q {
                o.stats.qr_unmodified_checks += 1;
                let now = hex128(qr_digest(qr));
                if now != *d {
                    o.violate(
                        "I3_render_modified_qr",
                        "SharedQr",
                        usize::MAX - 1,
                        i,
                        format!("shared QR code {} changed during the episode: {} -> {}", i, d, now),
                    );
                }
            }
        }
    }

    // --- on-demand pristine checks (I2 for arbitrary states) ---------------------
    // A few states of this episode - preferably ones observed only once, which I1 cannot
    // check - are re-evaluated from scratch, each in its own fresh process that does exactly
    // that one build (and render), with setters in canonical order.
    let n_ondemand = ONDEMAND.load(std::sync::atomic::Ordering::Relaxed);
    if n_ondemand > 0 && oracle.lock().unwrap().violation.is_none() {
        let picks: Vec<(String, OneSpec, Outcome, String)> = {
            let o = oracle.lock().unwrap();
            let mut once: Vec<&String> = Vec::new();
            let mut many: Vec<&String> = Vec::new();
            for k in &o.first_seen_order {
                if let Some(seen) = o.table.get(k) {
                    if seen.spec.is_some() {
                        if seen.times <= 1 {
                            once.push(k);
                        } else {
                            many.push(k);
                        }
                    }
                }
            }
            let mut rng = crate::rng::Rng::new(ep.seed ^ 0x0D_E3A5D);
            let mut picks = Vec::new();
            // states that depend on something outside the process (a file behind an image option)
            // can be wrong consistently inside it: those go to a fresh process first
            let external: Vec<&String> = o
                .first_seen_order
                .iter()
                .filter(|k| {
                    o.table
                        .get(*k)
                        .and_then(|s| s.spec.as_ref())
                        .and_then(|sp| sp.render.as_ref())
                        .map(|(_, setters)| setters.iter().any(|s| matches!(s, RSetter::Image(ImageSpec::File(_)) | RSetter::Image(ImageSpec::RelFile(_)))))
                        .unwrap_or(false)
                })
                .collect();
            if !external.is_empty() {
                let k = external[external.len() - 1 - rng.usize_below(external.len().min(2))];
                let seen = &o.table[k];
                picks.push((k.clone(), seen.spec.clone().unwrap(), seen.outcome.clone(), seen.origin.clone()));
            }
            for _ in 0..n_ondemand {
                let pool = if !once.is_empty() && (many.is_empty() || rng.chance(3, 4)) { &mut once } else { &mut many };
                if pool.is_empty() {
                    break;
                }
                let k = pool.swap_remove(rng.usize_below(pool.len()));
                let seen = &o.table[k];
                picks.push((k.clone(), seen.spec.clone().unwrap(), seen.outcome.clone(), seen.origin.clone()));
            }
            picks
        };
        for (key, spec, in_run, origin) in picks {
            match evaluate_in_fresh_process(&spec) {
                Ok(None) => {
                    oracle.lock().unwrap().stats.probe("ondemand_fresh_process_timed_out");
                }
                Ok(Some(fresh)) => {
                    let mut o = oracle.lock().unwrap();
                    o.stats.ondemand_pristine_comparisons += 1;
                    o.outcome_hash = fold(o.outcome_hash, digest128(&[key.as_bytes(), format!("{:?}", fresh).as_bytes()])[0]);
                    if fresh != in_run {
                        let kind = spec.render.as_ref().map(|(k, _)| format!("Render:{}", k)).unwrap_or_else(|| "Build".into());
                        o.violate(
                            "I2_pristine_ondemand",
                            &kind,
                            usize::MAX - 1,
                            0,
                            format!(
                                "state {} gave {} at {} but {} in a fresh process that did only this (canonical setter order)",
                                key,
                                in_run.short(),
                                origin,
                                fresh.short()
                            ),
                        );
                    }
                }
                Err(e) => {
                    eprintln!("harness error: on-demand pristine process failed: {}", e);
                    std::process::exit(2);
                }
            }
        }
    }

    let (decisions, trace_hash, sstats) = sim.snapshot();
    let o = oracle.lock().unwrap();
    EpisodeResult {
        index: ep.index,
        violation: o.violation.clone(),
        trace_hash,
        outcome_hash: o.outcome_hash,
        decisions,
        sched: sstats,
        oracle: o.stats.clone(),
        n_tasks,
        n_ops: ep.n_ops(),
        policy: ep.sched.policy.name().to_string(),
        hung: false,
    }
}

/// Long-lived caller threads of this process (created on first use, never ended).
pub const POOL_SIZE: usize = 16;
type PoolJob = (Box<dyn FnOnce() + Send>, std::sync::mpsc::Sender<()>);
static POOL: Mutex<Vec<Option<std::sync::mpsc::Sender<PoolJob>>>> = Mutex::new(Vec::new());

fn pool_submit(k: usize, job: Box<dyn FnOnce() + Send>) -> std::sync::mpsc::Receiver<()> {
    let (done_tx, done_rx) = std::sync::mpsc::channel();
    let mut pool = POOL.lock().unwrap_or_else(|e| e.into_inner());
    if pool.len() < POOL_SIZE {
        pool.resize_with(POOL_SIZE, || None);
    }
    if pool[k].is_none() {
        let (tx, rx) = std::sync::mpsc::channel::<PoolJob>();
        std::thread::Builder::new()
            .name(format!("pool{}", k))
            .stack_size(8 << 20)
            .spawn(move || {
                while let Ok((job, done)) = rx.recv() {
                    job();
                    let _ = done.send(());
                }
            })
            .expect("spawn pool thread");
        pool[k] = Some(tx);
    }
    let _ = pool[k].as_ref().unwrap().send((job, done_tx));
    done_rx
}

/// How many on-demand pristine checks follow every episode (set once per process).
pub static ONDEMAND: std::sync::atomic::AtomicU32 = std::sync::atomic::AtomicU32::new(1);

/// `Ok(None)`: the fresh process did not answer within a minute (no comparison is made).
fn evaluate_in_fresh_process(spec: &OneSpec) -> Result<Option<Outcome>, String> {
    let exe = std::env::current_exe().map_err(|e| e.to_string())?;
    let arg = serde_json::to_string(spec).map_err(|e| e.to_string())?;
    let mut child = std::process::Command::new(exe)
        .arg("c14-one")
        .arg(arg)
        .stdin(std::process::Stdio::null())
        .stdout(std::process::Stdio::piped())
        .stderr(std::process::Stdio::null())
        .spawn()
        .map_err(|e| e.to_string())?;
    // the answer is one short line: reading it to the end cannot block on a full pipe
    let mut text = String::new();
    let t0 = std::time::Instant::now();
    loop {
        match child.try_wait() {
            Ok(Some(st)) => {
                use std::io::Read;
                if let Some(mut o) = child.stdout.take() {
                    let _ = o.read_to_string(&mut text);
                }
                if !st.success() {
                    return Err(format!("c14-one exited with {:?}", st));
                }
                break;
            }
            Ok(None) => {
                if t0.elapsed().as_secs() >= 60 {
                    let _ = child.kill();
                    let _ = child.wait();
                    return Ok(None);
                }
                std::thread::sleep(std::time::Duration::from_micros(200));
            }
            Err(e) => return Err(e.to_string()),
        }
    }
    let line = text.lines().rev().find(|l| l.starts_with('{')).ok_or("c14-one printed nothing")?;
    let v: serde_json::Value = serde_json::from_str(line).map_err(|e| e.to_string())?;
    serde_json::from_value::<Outcome>(v["outcome"].clone()).map(Some).map_err(|e| e.to_string())
}

/// `fqsim c14-one <OneSpec json>`: the fresh process of an on-demand pristine check.
pub fn one_main(args: &[String]) -> i32 {
    crate::quiet_panics();
    let Some(a) = args.first() else { return 2 };
    let spec: OneSpec = match serde_json::from_str(a) {
        Ok(s) => s,
        Err(e) => {
            eprintln!("bad spec: {}", e);
            return 2;
        }
    };
    let outcome = evaluate_one(&spec);
    remove_logo_dir();
    println!("\n{}", serde_json::json!({"outcome": outcome}));
    0
}

fn task_body(sim: &Arc<Sim>, oracle: &Arc<Mutex<Oracle>>, shared: &Arc<Shared>, ep: &Episode, id: usize) {
    let mut local = Local {
        builders: (0..N_BUILDER_SLOTS).map(|_| None).collect(),
        qrs: (0..N_QR_SLOTS).map(|_| None).collect(),
        svgs: (0..N_RENDER_SLOTS).map(|_| None).collect(),
        imgs: (0..N_RENDER_SLOTS).map(|_| None).collect(),
    };
    for (i, spec) in ep.tasks[id].iter().enumerate() {
        if oracle.lock().unwrap().violation.is_some() {
            break;
        }
        sched::op_boundary(sim, id);
        let crash = sched::Crash { at: spec.crash_at, site: spec.crash_site.clone() };
        let died = exec_op(sim, oracle, shared, ep, id, i, spec, &mut local, &crash, spec.cb_panic_at);
        if died {
            // I4: a dead operation leaves no trace — re-issue it without the fault; the
            // ordinary I1/I2 comparison then applies to the re-issued result.
            oracle.lock().unwrap().stats.reissued_after_fault += 1;
            exec_op(sim, oracle, shared, ep, id, i, spec, &mut local, &sched::Crash::default(), None);
        }
    }
}

/// Stores a QR code in a slot. A slot that already holds one is overwritten *in place*: like a
/// loop variable or a reused buffer in caller code, the new code lives at the old one's address
/// (anything that identifies a QR code by where it is stored gets to meet that).
fn put_qr(local: &mut Local, slot: usize, new: LocalQr) {
    match local.qrs[slot].as_mut() {
        Some(old) => {
            let LocalQr { qr, blank, tweaks, digest, cfg } = new;
            *old.qr = *qr;
            old.blank = blank;
            old.tweaks = tweaks;
            old.digest = digest;
            old.cfg = cfg;
        }
        None => local.qrs[slot] = Some(new),
    }
}

struct QrView<'a> {
    qr: &'a QRCode,
    blank: Option<usize>,
    tweaks: &'a [(u32, u8)],
    digest: &'a str,
    origin: String,
    cfg: &'a QrCfg,
}

fn resolve_qr<'a>(r: QrRef, local: &'a Local, shared: &'a Shared) -> Option<QrView<'a>> {
    match r {
        QrRef::Local(s) => local.qrs[(s as usize) % N_QR_SLOTS].as_ref().map(|q| QrView {
            qr: &q.qr,
            blank: q.blank,
            tweaks: &q.tweaks,
            digest: q.digest.as_str(),
            origin: format!("local {}", s),
            cfg: &q.cfg,
        }),
        QrRef::Shared(s) => {
            if shared.qrs.is_empty() {
                return None;
            }
            shared.qrs[(s as usize) % shared.qrs.len()].as_ref().map(|(q, d, c)| QrView {
                qr: q,
                blank: None,
                tweaks: &[],
                digest: d.as_str(),
                origin: format!("shared {}", s),
                cfg: c,
            })
        }
    }
}

/// Executes one operation through the public API. Returns true if an injected fault killed it.
#[allow(clippy::too_many_arguments)]
fn exec_op(
    sim: &Arc<Sim>,
    oracle: &Arc<Mutex<Oracle>>,
    shared: &Arc<Shared>,
    ep: &Episode,
    id: usize,
    op_index: usize,
    spec: &OpSpec,
    local: &mut Local,
    crash: &sched::Crash,
    cb_panic_at: Option<u32>,
) -> bool {
    let kind = spec.op.kind();
    {
        let mut o = oracle.lock().unwrap();
        *o.stats.ops.entry(kind.to_string()).or_insert(0) += 1;
        if cb_panic_at.is_some() {
            o.stats.probe("callback_panic_armed");
        }
    }
    match &spec.op {
        Op::Nop => false,
        Op::NewBuilder { slot, input } => {
            let bytes = ep.input(*input);
            local.builders[(*slot as usize) % N_BUILDER_SLOTS] = Some((QRBuilder::new(bytes.clone()), QrCfg::new(bytes)));
            false
        }
        Op::Set { slot, s } => {
            if let Some((b, m)) = local.builders[(*slot as usize) % N_BUILDER_SLOTS].as_mut() {
                let had = match s {
                    BSetter::Mode(_) => m.mode.is_some(),
                    BSetter::Ecl(_) => m.ecl.is_some(),
                    BSetter::Version(_) => m.version.is_some(),
                    BSetter::Mask(_) => m.mask.is_some(),
                };
                apply_bsetter(b, s);
                m.apply(s);
                if had {
                    oracle.lock().unwrap().stats.probe("setter_overwritten");
                }
            }
            false
        }
        Op::Build { slot, out } => {
            let Some((b, m)) = local.builders[(*slot as usize) % N_BUILDER_SLOTS].as_ref() else {
                return false;
            };
            let cfg = m.clone();
            sched::op_begin(sim, id, crash);
            let r = catch_unwind(AssertUnwindSafe(|| b.build()));
            sched::op_end(sim, id);
            finish_build(oracle, r, &cfg, id, op_index, kind, local, *out)
        }
        Op::BuildShared { shared: sidx, out } => {
            if shared.builders.is_empty() {
                return false;
            }
            let si = (*sidx as usize) % shared.builders.len();
            let (b, m) = &shared.builders[si];
            let cfg = m.clone();
            {
                let mut o = oracle.lock().unwrap();
                o.in_flight[si] += 1;
                if o.in_flight[si] > 1 {
                    o.stats.probe("shared_builder_concurrent_builds_overlapped");
                }
            }
            sched::op_begin(sim, id, crash);
            let r = catch_unwind(AssertUnwindSafe(|| b.build()));
            sched::op_end(sim, id);
            oracle.lock().unwrap().in_flight[si] -= 1;
            finish_build(oracle, r, &cfg, id, op_index, kind, local, *out)
        }
        Op::BuildFresh { input, mode, ecl, version, mask, out } => {
            let cfg = QrCfg {
                input: ep.input(*input),
                mode: mode.map(|v| v % 3),
                ecl: ecl.map(|v| v % 4),
                version: version.map(|v| v.clamp(1, 40)),
                mask: mask.map(|v| v % 8),
            };
            let b = cfg.fresh_builder();
            sched::op_begin(sim, id, crash);
            let r = catch_unwind(AssertUnwindSafe(|| b.build()));
            sched::op_end(sim, id);
            finish_build(oracle, r, &cfg, id, op_index, kind, local, *out)
        }
        Op::SetBurst { what, slot, n } => {
            let n = (*n).max(1);
            match *what % 3 {
                0 => {
                    if let Some((b, m)) = local.builders[(*slot as usize) % N_BUILDER_SLOTS].as_mut() {
                        for i in 0..n {
                            b.mask(mask_of((i % 8) as u8));
                            if i & 0xff_ffff == 0xff_ffff {
                                sched::hook("op:boundary"); // a sign of life for the hang watchdog
                            }
                        }
                        m.apply(&BSetter::Mask(((n - 1) % 8) as u8));
                    }
                }
                1 => {
                    if let Some((b, m)) = local.svgs[(*slot as usize) % N_RENDER_SLOTS].as_mut() {
                        for i in 0..n {
                            b.margin((i % 5) as usize);
                            if i & 0xff_ffff == 0xff_ffff {
                                sched::hook("op:boundary");
                            }
                        }
                        m.apply(&RSetter::Margin(((n - 1) % 5) as usize), false);
                    }
                }
                _ => {
                    if let Some((b, m)) = local.imgs[(*slot as usize) % N_RENDER_SLOTS].as_mut() {
                        for i in 0..n {
                            b.margin((i % 5) as usize);
                            if i & 0xff_ffff == 0xff_ffff {
                                sched::hook("op:boundary");
                            }
                        }
                        m.apply(&RSetter::Margin(((n - 1) % 5) as usize), true);
                    }
                }
            }
            oracle.lock().unwrap().stats.probe("setter_burst");
            false
        }
        Op::Burst { slot, n } => {
            let Some((b, m)) = local.builders[(*slot as usize) % N_BUILDER_SLOTS].as_ref() else {
                return false;
            };
            let cfg = m.clone();
            let key = cfg.key();
            sched::op_begin(sim, id, crash);
            let mut first: Option<Outcome> = None;
            let mut bad: Option<(u32, Outcome)> = None;
            let mut died = false;
            // long bursts are for small symbols: the cost of one build grows with its area
            let mut n_eff = *n;
            for i in 0..*n {
                if i >= n_eff {
                    break;
                }
                // the first few calls and every 64th are interleaved with the other tasks as
                // usual; the rest of a long burst runs without consulting the scheduler
                sched::set_quiet(i >= 4 && i % 64 != 0);
                let r = catch_unwind(AssertUnwindSafe(|| b.build()));
                sched::set_quiet(false);
                let outcome = match r {
                    Ok(res) => {
                        if i == 0 {
                            if let Ok(q) = &res {
                                n_eff = n_eff.min((40_000_000 / (q.size * q.size).max(1)) as u32).max(4);
                            }
                        }
                        build_outcome(&res)
                    }
                    Err(p) => classify_panic(p),
                };
                if outcome.is_died() {
                    died = true;
                    break;
                }
                match &first {
                    None => first = Some(outcome),
                    Some(f) => {
                        if *f != outcome {
                            bad = Some((i, outcome));
                            break;
                        }
                    }
                }
            }
            sched::op_end(sim, id);
            let mut o = oracle.lock().unwrap();
            o.stats.probe("burst_builds");
            if let Some(f) = &first {
                o.observe_spec(&key, f, id, op_index, kind, false, Some(OneSpec { cfg: cfg.clone(), blank: None, tweaks: vec![], render: None }));
            }
            if let (Some(f), Some((i, got))) = (&first, bad) {
                o.violate(
                    "I5_repeated_build_differs",
                    kind,
                    id,
                    op_index,
                    format!("state {}: build number {} of {} in a row gave {} but the first gave {}", key, i + 1, n, got.short(), f.short()),
                );
            }
            died
        }
        Op::RenderBurst { slot, qr, n } => {
            let Some((b, m)) = local.svgs[(*slot as usize) % N_RENDER_SLOTS].as_ref() else {
                return false;
            };
            if m.has_panicky_shape() {
                return false;
            }
            let Some(v) = resolve_qr(*qr, local, shared) else {
                return false;
            };
            let key = format!("R|svg|{}|{}", m.key(), v.digest);
            let spec = Some(OneSpec { cfg: v.cfg.clone(), blank: v.blank, tweaks: v.tweaks.to_vec(), render: Some(("svg".into(), m.canonical_setters())) });
            CB_PANIC_AT.with(|c| c.set(None));
            sched::op_begin(sim, id, crash);
            let mut first: Option<Outcome> = None;
            let mut bad: Option<(u32, Outcome)> = None;
            let mut died = false;
            let n_eff = (*n).min((20_000_000 / (v.qr.size * v.qr.size).max(1)) as u32).max(4);
            for i in 0..n_eff {
                sched::set_quiet(i >= 4 && i % 64 != 0);
                let outcome = render_svg_outcome(b, v.qr);
                sched::set_quiet(false);
                if outcome.is_died() {
                    died = true;
                    break;
                }
                match &first {
                    None => first = Some(outcome),
                    Some(f) => {
                        if *f != outcome {
                            bad = Some((i, outcome));
                            break;
                        }
                    }
                }
            }
            sched::op_end(sim, id);
            if let (Some(f), Some((i, got))) = (&first, &bad) {
                oracle.lock().unwrap().violate(
                    "I1_repeated_render_differs",
                    kind,
                    id,
                    op_index,
                    format!("state {}: render number {} of {} in a row gave {} but the first gave {}", key, i + 1, n, got.short(), f.short()),
                );
            }
            oracle.lock().unwrap().stats.probe("burst_renders");
            match first {
                Some(f) => finish_render(oracle, &key, f, &v, id, op_index, kind, spec) || died,
                None => died,
            }
        }
        Op::CloneQr { from, to } => {
            let f = (*from as usize) % N_QR_SLOTS;
            let t = (*to as usize) % N_QR_SLOTS;
            if let Some(q) = local.qrs[f].as_ref() {
                let c = LocalQr { qr: Box::new((*q.qr).clone()), blank: q.blank, tweaks: q.tweaks.clone(), digest: q.digest.clone(), cfg: q.cfg.clone() };
                let d = hex128(qr_digest(&c.qr));
                if d != c.digest {
                    oracle.lock().unwrap().violate(
                        "I3_render_modified_qr",
                        kind,
                        id,
                        op_index,
                        format!("clone of QR code differs from the original: {} vs {}", d, c.digest),
                    );
                }
                put_qr(local, t, c);
            }
            false
        }
        Op::BlankQr { to, version } => {
            let size = 17 + 4 * (*version).clamp(1, 40) as usize;
            let qr = Box::new(QRCode::default(size));
            let digest = hex128(qr_digest(&qr));
            oracle.lock().unwrap().stats.probe("blank_qr_made");
            put_qr(local, (*to as usize) % N_QR_SLOTS, LocalQr { qr, blank: Some(size), tweaks: vec![], digest, cfg: QrCfg::new(Vec::new()) });
            false
        }
        Op::TweakQr { from, to, pos, xor } => {
            let f = (*from as usize) % N_QR_SLOTS;
            let t = (*to as usize) % N_QR_SLOTS;
            if let Some(q) = local.qrs[f].as_ref() {
                let mut qr = Box::new((*q.qr).clone());
                let n = (qr.size * qr.size).max(1);
                let idx = (*pos as usize) % n;
                qr.data[idx].0 ^= *xor & 0x0f;
                let mut tweaks = q.tweaks.clone();
                tweaks.push((idx as u32, *xor & 0x0f));
                let digest = hex128(qr_digest(&qr));
                oracle.lock().unwrap().stats.probe("qr_tweaked_by_hand");
                let c = LocalQr { qr, blank: q.blank, tweaks, digest, cfg: q.cfg.clone() };
                put_qr(local, t, c);
            }
            false
        }
        Op::NewSvg { slot } => {
            local.svgs[(*slot as usize) % N_RENDER_SLOTS] = Some((SvgBuilder::default(), RenderModel::default()));
            false
        }
        Op::SvgSet { slot, s } => {
            if let Some((b, m)) = local.svgs[(*slot as usize) % N_RENDER_SLOTS].as_mut() {
                apply_rsetter(b, s);
                m.apply(s, false);
            }
            false
        }
        Op::NewImg { slot } => {
            local.imgs[(*slot as usize) % N_RENDER_SLOTS] = Some((ImageBuilder::default(), RenderModel::default()));
            false
        }
        Op::ImgSet { slot, s } => {
            if let Some((b, m)) = local.imgs[(*slot as usize) % N_RENDER_SLOTS].as_mut() {
                apply_img_setter(b, s);
                m.apply(s, true);
            }
            false
        }
        Op::SvgRender { slot, qr } => {
            let Some((b, m)) = local.svgs[(*slot as usize) % N_RENDER_SLOTS].as_ref() else {
                return false;
            };
            let Some(v) = resolve_qr(*qr, local, shared) else {
                return false;
            };
            let key = format!("R|svg|{}|{}", m.key(), v.digest);
            // a panicking callback is a harness-side fault, not part of the model: no pristine spec then
            let spec = if m.has_panicky_shape() { None } else { Some(OneSpec { cfg: v.cfg.clone(), blank: v.blank, tweaks: v.tweaks.to_vec(), render: Some(("svg".into(), m.canonical_setters())) }) };
            CB_CALLS.with(|c| c.set(0));
            CB_PANIC_AT.with(|c| c.set(cb_panic_at));
            sched::op_begin(sim, id, crash);
            let outcome = render_svg_outcome(b, v.qr);
            sched::op_end(sim, id);
            CB_PANIC_AT.with(|c| c.set(None));
            finish_render(oracle, &key, outcome, &v, id, op_index, kind, spec)
        }
        Op::ImgRender { slot, qr, pixmap } => {
            let Some((b, m)) = local.imgs[(*slot as usize) % N_RENDER_SLOTS].as_ref() else {
                return false;
            };
            let Some(v) = resolve_qr(*qr, local, shared) else {
                return false;
            };
            if v.qr.size > MAX_RASTER_QR_SIZE {
                // large symbols are rasterised only now and then (a V40 render costs tens of
                // milliseconds); which ones is a function of the episode, not of timing
                if crate::rng::mix(ep.seed, ((id as u64) << 32) | op_index as u64) % 12 != 0 {
                    oracle.lock().unwrap().stats.probe("raster_skipped_large_symbol");
                    return false;
                }
                oracle.lock().unwrap().stats.probe("raster_large_symbol");
            }
            let rk = if *pixmap { "pixmap" } else { "png" };
            match &m.image {
                // the file behind the image option holds what the model says, right now
                Some(ImageSpec::File(logo)) => {
                    prepare_logo(*logo);
                    oracle.lock().unwrap().stats.probe("file_backed_image_render");
                }
                Some(ImageSpec::RelFile(logo)) => {
                    prepare_rel_logo(*logo);
                    oracle.lock().unwrap().stats.probe("file_backed_image_render(relative)");
                }
                _ => {}
            }
            let key = format!("R|{}|{}|{}", rk, m.key(), v.digest);
            // a panicking callback is a harness-side fault, not part of the model: no pristine spec then
            let spec = if m.has_panicky_shape() {
                None
            } else {
                Some(OneSpec { cfg: v.cfg.clone(), blank: v.blank, tweaks: v.tweaks.to_vec(), render: Some((rk.into(), m.canonical_setters())) })
            };
            CB_CALLS.with(|c| c.set(0));
            CB_PANIC_AT.with(|c| c.set(cb_panic_at));
            sched::op_begin(sim, id, crash);
            let outcome = render_img_outcome(b, v.qr, *pixmap);
            sched::op_end(sim, id);
            CB_PANIC_AT.with(|c| c.set(None));
            finish_render(oracle, &key, outcome, &v, id, op_index, kind, spec)
        }
        Op::Term { qr, print } => {
            let Some(v) = resolve_qr(*qr, local, shared) else {
                return false;
            };
            let rk = if *print { "print" } else { "term" };
            let key = format!("R|{}|{}", rk, v.digest);
            let spec = Some(OneSpec { cfg: v.cfg.clone(), blank: v.blank, tweaks: v.tweaks.to_vec(), render: Some((rk.into(), vec![])) });
            sched::op_begin(sim, id, crash);
            let outcome = render_term_outcome(v.qr, *print);
            sched::op_end(sim, id);
            finish_render(oracle, &key, outcome, &v, id, op_index, kind, spec)
        }
    }
}

pub fn render_svg_outcome(b: &SvgBuilder, q: &QRCode) -> Outcome {
    match catch_unwind(AssertUnwindSafe(|| b.to_str(q))) {
        Ok(s) => bytes_outcome(s.as_bytes()),
        Err(p) => classify_panic(p),
    }
}

pub fn render_img_outcome(b: &ImageBuilder, q: &QRCode, pixmap: bool) -> Outcome {
    let r = catch_unwind(AssertUnwindSafe(|| {
        if pixmap {
            let p = b.to_pixmap(q);
            let dims = [p.width().to_le_bytes(), p.height().to_le_bytes()].concat();
            Outcome::Ok(format!("{}:{}x{}", hex128(digest128(&[p.data(), &dims])), p.width(), p.height()))
        } else {
            match b.to_bytes(q) {
                Ok(bytes) => bytes_outcome(&bytes),
                Err(e) => Outcome::Err(format!("{:?}", e)),
            }
        }
    }));
    match r {
        Ok(o) => o,
        Err(p) => classify_panic(p),
    }
}

pub fn render_term_outcome(q: &QRCode, print: bool) -> Outcome {
    if print {
        // `QRCode::print` writes to the process's stdout; the bytes this thread sends to fd 1
        // while the call runs are captured by the `write` shim instead of reaching the terminal
        // stdout is one buffer for the whole process: while this call is captured no other task
        // may run (its output - a debug print somewhere in a build, say - would be flushed by
        // this thread and counted as this call's), so the call passes its scheduling points
        // without consulting the scheduler
        sched::set_quiet(true);
        crate::c19::shim::capture_stdout_begin();
        let r = catch_unwind(AssertUnwindSafe(|| q.print()));
        let bytes = crate::c19::shim::capture_stdout_end();
        sched::set_quiet(false);
        return match r {
            Ok(()) => bytes_outcome(&bytes),
            Err(p) => classify_panic(p),
        };
    }
    match catch_unwind(AssertUnwindSafe(|| q.to_str())) {
        Ok(s) => bytes_outcome(s.as_bytes()),
        Err(p) => classify_panic(p),
    }
}

/// What `fqsim c14-one` does in a fresh process: exactly one build from a fresh builder
/// (setters in canonical order) and, for a render state, exactly one render of the result.
pub fn evaluate_one(spec: &OneSpec) -> Outcome {
    let (outcome, qr) = if let Some(size) = spec.blank {
        let q = QRCode::default(size);
        (Outcome::Ok(hex128(qr_digest(&q))), Some(q))
    } else {
        let b = spec.cfg.fresh_builder();
        let r = catch_unwind(AssertUnwindSafe(|| b.build()));
        match r {
            Ok(res) => (build_outcome(&res), res.ok()),
            Err(p) => (classify_panic(p), None),
        }
    };
    let Some((kind, setters)) = &spec.render else { return outcome };
    let Some(mut qr) = qr else { return Outcome::Skipped };
    for (idx, xor) in &spec.tweaks {
        if let Some(m) = qr.data.get_mut(*idx as usize) {
            m.0 ^= *xor;
        }
    }
    match &RenderModel::from_setters(setters, true).image {
        Some(ImageSpec::File(logo)) => prepare_logo(*logo),
        Some(ImageSpec::RelFile(logo)) => prepare_rel_logo(*logo),
        _ => {}
    }
    match kind.as_str() {
        "svg" => render_svg_outcome(&svg_builder_from(setters), &qr),
        "png" => render_img_outcome(&img_builder_from(setters), &qr, false),
        "pixmap" => render_img_outcome(&img_builder_from(setters), &qr, true),
        "print" => render_term_outcome(&qr, true),
        _ => render_term_outcome(&qr, false),
    }
}

#[allow(clippy::too_many_arguments)]
fn finish_build(
    oracle: &Arc<Mutex<Oracle>>,
    r: std::thread::Result<Result<QRCode, fast_qr::qr::QRCodeError>>,
    cfg: &QrCfg,
    id: usize,
    op_index: usize,
    kind: &str,
    local: &mut Local,
    out: u8,
) -> bool {
    let key = cfg.key();
    let key = key.as_str();
    let (outcome, qr) = match r {
        Ok(res) => {
            let o = build_outcome(&res);
            (o, res.ok())
        }
        Err(p) => (classify_panic(p), None),
    };
    let died = outcome.is_died();
    {
        let mut o = oracle.lock().unwrap();
        o.observe_spec(key, &outcome, id, op_index, kind, false, Some(OneSpec { cfg: cfg.clone(), blank: None, tweaks: vec![], render: None }));
        match &outcome {
            Outcome::ErrEncodedData => o.stats.probe("err_encoded_data"),
            Outcome::ErrSpecifiedVersion => o.stats.probe("err_specified_version"),
            Outcome::Panic(_) => o.stats.probe("crate_panic_outcome(alphabet)"),
            _ => {}
        }
        if let Some(q) = &qr {
            if q.size == 177 {
                o.stats.probe("v40_built");
            }
        }
    }
    if let (Some(q), Outcome::Ok(d)) = (qr, &outcome) {
        put_qr(local, (out as usize) % N_QR_SLOTS, LocalQr { qr: Box::new(q), blank: None, tweaks: vec![], digest: d.clone(), cfg: cfg.clone() });
    }
    died
}

#[allow(clippy::too_many_arguments)]
fn finish_render(
    oracle: &Arc<Mutex<Oracle>>,
    key: &str,
    outcome: Outcome,
    v: &QrView<'_>,
    id: usize,
    op_index: usize,
    kind: &str,
    spec: Option<OneSpec>,
) -> bool {
    let died = outcome.is_died();
    let now = hex128(qr_digest(v.qr));
    let mut o = oracle.lock().unwrap();
    o.observe_spec(key, &outcome, id, op_index, kind, true, spec);
    o.stats.qr_unmodified_checks += 1;
    if now != v.digest {
        o.violate(
            "I3_render_modified_qr",
            kind,
            id,
            op_index,
            format!("QR code ({}) changed across a render: {} -> {}", v.origin, v.digest, now),
        );
    }
    died
}

#[allow(dead_code)]
pub fn distinct_policies(rs: &[EpisodeResult]) -> BTreeSet<String> {
    rs.iter().map(|r| r.policy.clone()).collect()
}

// ---------------------------------------------------------------------------
// Miri leg (thorough tier): see miri.rs
// ---------------------------------------------------------------------------

pub mod miri;
pub use miri::{miri_leg, miri_replay};
