//! Seeded episode generator (swarm style): every run draws its own task
//! count, operation mix, scheduling policy, input pool and fault plan from
//! one PRNG stream. Pure: never calls the crate under test.

use super::anchors::catalogue;
use super::sched::{Policy, SchedSpec};
use super::*;
use crate::gen;
use crate::rng::{mix, Rng};

struct TaskGen {
    builders: [bool; N_BUILDER_SLOTS],
    qrs: [bool; N_QR_SLOTS],
    svgs: [bool; N_RENDER_SLOTS],
    imgs: [bool; N_RENDER_SLOTS],
    svg_has_panicky: [bool; N_RENDER_SLOTS],
    img_has_panicky: [bool; N_RENDER_SLOTS],
}

struct Swarm {
    faulty: bool,
    w_build: u32,
    w_set: u32,
    w_svg: u32,
    w_img: u32,
    w_term: u32,
    w_shared: u32,
    w_anchor: u32,
    w_twin: u32,
    p_crash: f64,
    vmax: u8,
}

fn filled(xs: &[bool]) -> Vec<u8> {
    xs.iter().enumerate().filter(|(_, b)| **b).map(|(i, _)| i as u8).collect()
}

pub fn gen_episode(verif_seed: u64, index: u64) -> Episode {
    gen::FILE_IMAGES.with(|f| f.set(true));
    let ep = gen_episode_inner(verif_seed, index);
    gen::FILE_IMAGES.with(|f| f.set(false));
    ep
}

thread_local! {
    static PATTERNS: std::cell::RefCell<Vec<String>> = const { std::cell::RefCell::new(Vec::new()) };
}

fn note_pattern(name: &str) {
    PATTERNS.with(|p| {
        let mut p = p.borrow_mut();
        if !p.iter().any(|x| x == name) {
            p.push(name.to_string());
        }
    });
}

fn gen_episode_inner(verif_seed: u64, index: u64) -> Episode {
    PATTERNS.with(|p| p.borrow_mut().clear());
    let seed = mix(verif_seed, index);
    let mut rng = Rng::new(seed);
    let cat = catalogue();

    let faulty = !rng.chance(40, 100);
    let sw = Swarm {
        faulty,
        w_build: *rng.pick(&[20, 30, 45]),
        w_set: *rng.pick(&[10, 25, 40]),
        w_svg: *rng.pick(&[0, 10, 20]),
        w_img: *rng.pick(&[0, 0, 3, 8]),
        w_term: *rng.pick(&[0, 5, 10]),
        w_shared: *rng.pick(&[0, 10, 25]),
        w_anchor: *rng.pick(&[5, 10, 20]),
        w_twin: *rng.pick(&[0, 4, 8, 15]),
        p_crash: if faulty { *rng.pick(&[0.03, 0.08, 0.2]) } else { 0.0 },
        vmax: *rng.pick(&[6u8, 10, 10, 20, 40]),
    };

    let n_tasks = match rng.weighted(&[15, 30, 20, 15, 12, 8]) {
        0 => 1,
        1 => 2,
        2 => 3,
        3 => 4,
        4 => rng.range(5, 8) as usize,
        _ => rng.range(9, 16) as usize,
    };

    // input pool: two anchors' inputs first, then random ones (few, so that states recur)
    let a1 = rng.usize_below(cat.len());
    let mut a2 = rng.usize_below(cat.len());
    if a2 == a1 {
        a2 = (a1 + 1) % cat.len();
    }
    let anchor_ids = [a1, a2];
    let mut inputs: Vec<Vec<u8>> = vec![cat[a1].input.clone(), cat[a2].input.clone()];
    let n_random = rng.range(1, 4) as usize;
    let max_len = if sw.vmax >= 40 { 7200 } else if sw.vmax >= 20 { 800 } else { 200 };
    for _ in 0..n_random {
        inputs.push(gen::gen_input(&mut rng, max_len));
    }

    let n_shared_b = if sw.w_shared > 0 { rng.range(1, 2) as usize } else { 0 };
    let n_shared_q = if sw.w_shared > 0 { rng.range(0, 2) as usize } else { 0 };
    let gen_script = |rng: &mut Rng| BuilderScript {
        input: rng.usize_below(inputs.len()) as u8,
        setters: (0..rng.range(0, 5)).map(|_| gen::gen_bsetter(rng, sw.vmax)).collect(),
    };
    let shared_builders: Vec<BuilderScript> = (0..n_shared_b).map(|_| gen_script(&mut rng)).collect();
    let shared_qrs: Vec<BuilderScript> = (0..n_shared_q)
        .map(|_| {
            let mut s = gen_script(&mut rng);
            // shared QR codes should usually exist: avoid forced non-byte modes and tiny forced versions
            s.setters.retain(|x| !matches!(x, BSetter::Mode(0) | BSetter::Mode(1)));
            s
        })
        .collect();

    let mut tasks: Vec<Vec<OpSpec>> = Vec::new();
    for _ in 0..n_tasks {
        let n_ops = rng.range(3, 12) as usize;
        let mut tg = TaskGen {
            builders: [false; N_BUILDER_SLOTS],
            qrs: [false; N_QR_SLOTS],
            svgs: [false; N_RENDER_SLOTS],
            imgs: [false; N_RENDER_SLOTS],
            svg_has_panicky: [false; N_RENDER_SLOTS],
            img_has_panicky: [false; N_RENDER_SLOTS],
        };
        let mut ops: Vec<OpSpec> = Vec::new();
        while ops.len() < n_ops {
            gen_op(&mut rng, &sw, &mut tg, &inputs, &anchor_ids, &cat, n_shared_b, n_shared_q, &mut ops);
        }
        tasks.push(ops);
    }

    // Herd on first use (one multi-task episode in seven): every task starts with the SAME few
    // operations - the same build, then the same kind of render of it - before going its own
    // way, so that whatever the crate sets up lazily per version, per width or per renderer kind
    // is set up by several threads at once (in a cold process image, for the first time ever).
    if n_tasks >= 2 && rng.chance(1, 7) {
        note_pattern("herd_on_first_use");
        let mut prefix: Vec<OpSpec> = Vec::new();
        let version = *rng.pick(&[1u8, 1, 2, 3, 4, 7]);
        let forced = rng.chance(2, 3);
        prefix.push(plain(Op::BuildFresh {
            input: rng.usize_below(inputs.len()) as u8,
            mode: None,
            ecl: if forced { Some(0) } else { None },
            version: if forced { Some(version) } else { None },
            mask: if rng.chance(1, 3) { Some(rng.below(8) as u8) } else { None },
            out: 0,
        }));
        let n_renders = rng.range(1, 2);
        for _ in 0..n_renders {
            match rng.weighted(&[5, 4, 2, 2]) {
                0 => prefix.push(plain(Op::Term { qr: QrRef::Local(0), print: false })),
                1 => {
                    prefix.push(plain(Op::NewSvg { slot: 0 }));
                    prefix.push(plain(Op::SvgRender { slot: 0, qr: QrRef::Local(0) }));
                }
                2 => {
                    prefix.push(plain(Op::NewImg { slot: 0 }));
                    prefix.push(plain(Op::ImgRender { slot: 0, qr: QrRef::Local(0), pixmap: false }));
                }
                _ => {}
            }
        }
        for t in tasks.iter_mut() {
            let mut ops = prefix.clone();
            ops.append(t);
            *t = ops;
        }
    }

    // scheduling policy
    let policy = if n_tasks == 1 {
        Policy::Sequential
    } else {
        match rng.weighted(&[8, 10, 14, 14, 28, 16, 10]) {
            0 => Policy::Sequential,
            1 => Policy::RunToCompletion,
            2 => Policy::OpBoundary(*rng.pick(&[0.3, 0.7, 1.0])),
            3 => Policy::Uniform,
            4 => Policy::Sticky(*rng.pick(&[0.02, 0.05, 0.2, 0.5])),
            5 => {
                let d = rng.range(1, 3);
                Policy::Pct((0..d).map(|_| rng.below(400)).collect())
            }
            _ => Policy::Starve(rng.usize_below(n_tasks), *rng.pick(&[0.05, 0.2])),
        }
    };

    Episode {
        index,
        seed,
        class: if faulty { "faulty".into() } else { "fault_free".into() },
        sched: SchedSpec { policy, seed: rng.next_u64() },
        inputs,
        shared_builders,
        shared_qrs,
        tasks,
        patterns: PATTERNS.with(|p| std::mem::take(&mut *p.borrow_mut())),
    }
}

fn plain(op: Op) -> OpSpec {
    OpSpec { op, crash_at: None, crash_site: None, cb_panic_at: None }
}

const BUILD_SITES: &[&str] = &[
    "new:mode_chosen", "new:version_chosen", "new:matrix_created", "create:encoded", "create:structured",
    "create:binstring", "encode:allocated", "encode:segment", "encode:terminated", "encode:padded8",
    "encode:filled", "structure:generator", "structure:g1_divided", "structure:g2_divided",
    "structure:ecc_done", "structure:interleaved", "blank:finder", "blank:timing", "blank:alignment",
    "blank:version_info", "blank:separators", "place:blank", "place:data_placed", "place:transposed",
    "place:mask_iter", "place:mask_applied", "place:scored", "place:mask_selected", "place:format_info",
    "place:final_mask", "score:dark", "score:squares", "score:lines",
];
const SVG_SITES: &[&str] = &["svg:header", "svg:path_row", "svg:path_close", "svg:path", "svg:image", "cb:module"];
const TERM_SITES: &[&str] = &["term:header", "term:row_pair"];
const IMG_SITES: &[&str] = &[
    "img:svg_text", "img:parsed", "img:pixmap_allocated", "img:rendered", "svg:header", "svg:path_row", "svg:path_close",
    "svg:path", "svg:image",
];

/// An operation that may be killed: by point index, or (half of the time) at a named site.
fn faulted(rng: &mut Rng, sw: &Swarm, op: Op, cb_panic_at: Option<u32>) -> OpSpec {
    let is_render = op.is_render();
    let mut spec = OpSpec { op, crash_at: None, crash_site: None, cb_panic_at };
    if sw.faulty && rng.prob(sw.p_crash) {
        // (the draws happen either way, so that both settings generate the same episodes)
        if rng.chance(1, 2) {
            spec.crash_at = crash_point(rng, is_render);
        } else {
            let sites = match &spec.op {
                Op::SvgRender { .. } | Op::RenderBurst { .. } => SVG_SITES,
                Op::ImgRender { .. } => IMG_SITES,
                Op::Term { .. } => TERM_SITES,
                _ => BUILD_SITES,
            };
            let nth = match rng.weighted(&[6, 3, 1]) {
                0 => 0,
                1 => rng.below(8) as u32,
                _ => rng.below(40) as u32,
            };
            spec.crash_site = Some((rng.pick(sites).to_string(), nth));
        }
        if !inject_crashes() {
            spec.crash_at = None;
            spec.crash_site = None;
        }
    }
    spec
}

/// Unwinding a caller at an arbitrary `verif_point!` models nothing that can happen to this
/// crate (safe, synchronous Rust: a caller leaves a call early only through a panic, and the
/// places that can panic are known - the forced-mode alphabet checks, user `Shape::Command`
/// callbacks, renderer failures on unusable option values; all of those are generated as
/// themselves). A correct change may rely on that, e.g. by holding a lock across a stage
/// boundary where nothing can panic, so an alarm raised through such an unwinding would be an
/// alarm on code where the property holds. Off unless FQSIM_INJECT_CRASH is set (experiments).
pub fn inject_crashes() -> bool {
    static ON: std::sync::OnceLock<bool> = std::sync::OnceLock::new();
    *ON.get_or_init(|| std::env::var_os("FQSIM_INJECT_CRASH").is_some())
}

fn crash_point(rng: &mut Rng, is_render: bool) -> Option<u32> {
    // a build passes ~70-90 sites, a render a few dozen to a few hundred; bias to the early ones
    Some(match rng.weighted(&[5, 3, 2]) {
        0 => rng.below(12) as u32,
        1 => rng.below(if is_render { 40 } else { 90 }) as u32,
        _ => rng.below(200) as u32,
    })
}

#[allow(clippy::too_many_arguments)]
fn gen_op(
    rng: &mut Rng,
    sw: &Swarm,
    tg: &mut TaskGen,
    inputs: &[Vec<u8>],
    anchor_ids: &[usize; 2],
    cat: &[QrCfg],
    n_shared_b: usize,
    n_shared_q: usize,
    ops: &mut Vec<OpSpec>,
) {
    let have_b = filled(&tg.builders);
    let have_q = filled(&tg.qrs);
    let have_svg = filled(&tg.svgs);
    let have_img = filled(&tg.imgs);
    let any_qr = !have_q.is_empty() || n_shared_q > 0;
    let weights = [
        /* 0 NewBuilder   */ if have_b.len() < 2 { 30 } else { 8 },
        /* 1 Set          */ if have_b.is_empty() { 0 } else { sw.w_set },
        /* 2 Build        */ if have_b.is_empty() { 0 } else { sw.w_build },
        /* 3 BuildShared  */ if n_shared_b > 0 { sw.w_shared } else { 0 },
        /* 4 BuildFresh   */ 10,
        /* 5 Anchor       */ sw.w_anchor,
        /* 6 CloneQr      */ if have_q.is_empty() { 0 } else { 3 },
        /* 7 NewSvg       */ if sw.w_svg > 0 && have_svg.len() < 2 { 6 } else { 0 },
        /* 8 SvgSet       */ if have_svg.is_empty() { 0 } else { sw.w_svg },
        /* 9 SvgRender    */ if have_svg.is_empty() || !any_qr { 0 } else { sw.w_svg },
        /* 10 NewImg      */ if sw.w_img > 0 && have_img.len() < 2 { 4 } else { 0 },
        /* 11 ImgSet      */ if have_img.is_empty() { 0 } else { sw.w_img },
        /* 12 ImgRender   */ if have_img.is_empty() || !any_qr { 0 } else { sw.w_img },
        /* 13 Term        */ if any_qr { sw.w_term } else { 0 },
        /* 14 RenderAnchor*/ if sw.w_svg + sw.w_term > 0 { sw.w_anchor / 2 } else { 0 },
        /* 15 BuilderTwin */ sw.w_twin,
        /* 16 SvgTwin     */ if any_qr && sw.w_svg > 0 { sw.w_twin } else { 0 },
        /* 17 ImgTwin     */ if any_qr && sw.w_img > 0 { sw.w_twin / 3 } else { 0 },
        /* 18 BatchRender */ if sw.w_svg + sw.w_img > 0 { 3 + sw.w_twin / 3 } else { 0 },
        /* 19 Burst       */ if have_b.is_empty() { 0 } else { 2 },
        /* 20 RenderBurst */ if have_svg.is_empty() || !any_qr { 0 } else { 1 },
        /* 21 TweakQr     */ if have_q.is_empty() { 0 } else { 2 },
        /* 22 SetBurst    */ if have_b.is_empty() && have_svg.is_empty() && have_img.is_empty() { 0 } else { 2 },
        /* 23 BlankQr     */ 2,
        /* 24 CallbackPanic */ if sw.faulty && sw.w_svg + sw.w_img > 0 { 6 } else { 0 },
        /* 25 ChangeBetweenRenders */ if sw.w_svg + sw.w_img > 0 { 4 + sw.w_twin / 3 } else { 0 },
    ];
    let pick_qr = |rng: &mut Rng| -> QrRef {
        if n_shared_q > 0 && (have_q.is_empty() || rng.chance(2, 5)) {
            QrRef::Shared(rng.usize_below(n_shared_q) as u8)
        } else {
            QrRef::Local(*rng.pick(&have_q))
        }
    };
    match rng.weighted(&weights) {
        0 => {
            let slot = rng.usize_below(N_BUILDER_SLOTS.min(have_b.len() + 1).max(1)) as u8;
            tg.builders[slot as usize] = true;
            ops.push(plain(Op::NewBuilder { slot, input: rng.usize_below(inputs.len()) as u8 }));
        }
        1 => {
            let slot = *rng.pick(&have_b);
            // often the same setter several times in a row (last value must win)
            let n = if rng.chance(1, 3) { rng.range(2, 4) } else { 1 };
            let first = gen::gen_bsetter(rng, sw.vmax);
            for i in 0..n {
                let s = if i > 0 && rng.chance(1, 2) {
                    // same option, another value
                    match first {
                        BSetter::Mode(_) => BSetter::Mode(if rng.chance(2, 3) { 2 } else { rng.below(3) as u8 }),
                        BSetter::Ecl(_) => BSetter::Ecl(rng.below(4) as u8),
                        BSetter::Version(_) => BSetter::Version(rng.range(1, sw.vmax as u64) as u8),
                        BSetter::Mask(_) => BSetter::Mask(rng.below(8) as u8),
                    }
                } else if i == 0 {
                    first.clone()
                } else {
                    gen::gen_bsetter(rng, sw.vmax)
                };
                ops.push(plain(Op::Set { slot, s }));
            }
        }
        2 => {
            let slot = *rng.pick(&have_b);
            let out = rng.usize_below(N_QR_SLOTS) as u8;
            tg.qrs[out as usize] = true;
            ops.push(faulted(rng, sw, Op::Build { slot, out }, None));
            // sometimes build the same builder again straight away (I5)
            if rng.chance(1, 5) {
                ops.push(plain(Op::Build { slot, out: rng.usize_below(N_QR_SLOTS) as u8 }));
            }
        }
        3 => {
            let out = rng.usize_below(N_QR_SLOTS) as u8;
            tg.qrs[out as usize] = true;
            let shared = rng.usize_below(n_shared_b) as u8;
            ops.push(faulted(rng, sw, Op::BuildShared { shared, out }, None));
        }
        4 => {
            let input = rng.usize_below(inputs.len()) as u8;
            let cfg = gen::gen_cfg_over(rng, Vec::new(), sw.vmax, true);
            let out = rng.usize_below(N_QR_SLOTS) as u8;
            tg.qrs[out as usize] = true;
            ops.push(faulted(rng, sw, Op::BuildFresh { input, mode: cfg.mode, ecl: cfg.ecl, version: cfg.version, mask: cfg.mask, out }, None));
        }
        5 | 14 => {
            // an anchor configuration, exactly: its outcome is compared with the pristine process (I2)
            let which = rng.usize_below(2);
            let a = &cat[anchor_ids[which]];
            let out = rng.usize_below(N_QR_SLOTS) as u8;
            tg.qrs[out as usize] = true;
            // either as a fresh builder, or through a reused builder driven to the anchor's state
            if rng.chance(1, 3) && !have_b.is_empty() {
                let slot = *rng.pick(&have_b);
                ops.push(plain(Op::NewBuilder { slot, input: which as u8 }));
                // noise first, then the anchor's values last (last value wins)
                let noise = rng.range(0, 3);
                let forced: Vec<BSetter> = a.setters();
                for _ in 0..noise {
                    if forced.is_empty() {
                        break;
                    }
                    let f = rng.pick(&forced).clone();
                    let s = match f {
                        BSetter::Mode(_) => BSetter::Mode(rng.below(3) as u8),
                        BSetter::Ecl(_) => BSetter::Ecl(rng.below(4) as u8),
                        BSetter::Version(_) => BSetter::Version(rng.range(1, 40) as u8),
                        BSetter::Mask(_) => BSetter::Mask(rng.below(8) as u8),
                    };
                    ops.push(plain(Op::Set { slot, s }));
                }
                let mut order = forced.clone();
                for i in (1..order.len()).rev() {
                    let j = rng.usize_below(i + 1);
                    order.swap(i, j);
                }
                for s in order {
                    ops.push(plain(Op::Set { slot, s }));
                }
                ops.push(faulted(rng, sw, Op::Build { slot, out }, None));
            } else {
                ops.push(faulted(rng, sw, Op::BuildFresh { input: which as u8, mode: a.mode, ecl: a.ecl, version: a.version, mask: a.mask, out }, None));
            }
            // default renders of the anchor's QR code are compared with the pristine process too
            if rng.chance(1, 2) {
                match rng.below(3) {
                    0 => {
                        let slot = rng.usize_below(N_RENDER_SLOTS) as u8;
                        tg.svgs[slot as usize] = true;
                        tg.svg_has_panicky[slot as usize] = false;
                        ops.push(plain(Op::NewSvg { slot }));
                        ops.push(faulted(rng, sw, Op::SvgRender { slot, qr: QrRef::Local(out) }, None));
                    }
                    1 => {
                        let print = rng.chance(1, 3);
                        ops.push(faulted(rng, sw, Op::Term { qr: QrRef::Local(out), print }, None))
                    }
                    _ => {
                        let slot = rng.usize_below(N_RENDER_SLOTS) as u8;
                        tg.imgs[slot as usize] = true;
                        tg.img_has_panicky[slot as usize] = false;
                        ops.push(plain(Op::NewImg { slot }));
                        ops.push(faulted(rng, sw, Op::ImgRender { slot, qr: QrRef::Local(out), pixmap: false }, None));
                    }
                }
            }
        }
        6 => {
            let from = *rng.pick(&have_q);
            let to = rng.usize_below(N_QR_SLOTS) as u8;
            tg.qrs[to as usize] = true;
            ops.push(plain(Op::CloneQr { from, to }));
        }
        7 => {
            let slot = rng.usize_below(N_RENDER_SLOTS) as u8;
            tg.svgs[slot as usize] = true;
            tg.svg_has_panicky[slot as usize] = false;
            ops.push(plain(Op::NewSvg { slot }));
        }
        8 => {
            let slot = *rng.pick(&have_svg);
            let n = if rng.chance(1, 3) { rng.range(2, 4) } else { 1 };
            for _ in 0..n {
                let s = gen::gen_rsetter(rng, false, false, sw.faulty);
                if let RSetter::Shape(sh) | RSetter::ShapeColor(sh, _) = &s {
                    if sh.0 % N_SHAPES == SHAPE_PANICKY {
                        tg.svg_has_panicky[slot as usize] = true;
                    }
                }
                ops.push(plain(Op::SvgSet { slot, s }));
            }
        }
        9 => {
            let slot = *rng.pick(&have_svg);
            let qr = pick_qr(rng);
            let cb = if tg.svg_has_panicky[slot as usize] && sw.faulty && rng.chance(2, 3) {
                Some(match rng.below(3) {
                    0 => rng.below(5) as u32,
                    1 => rng.below(200) as u32,
                    _ => rng.below(3000) as u32,
                })
            } else {
                None
            };
            ops.push(faulted(rng, sw, Op::SvgRender { slot, qr }, cb));
            if rng.chance(1, 6) {
                ops.push(plain(Op::SvgRender { slot, qr }));
            }
        }
        10 => {
            let slot = rng.usize_below(N_RENDER_SLOTS) as u8;
            tg.imgs[slot as usize] = true;
            tg.img_has_panicky[slot as usize] = false;
            ops.push(plain(Op::NewImg { slot }));
        }
        11 => {
            let slot = *rng.pick(&have_img);
            // in faulty episodes: callbacks that may panic, and - the raster path's own panics -
            // option values the renderer cannot use (a quote in a colour or an image reference
            // makes the generated document unparsable; a fit size of 0 cannot be allocated)
            let s = if sw.faulty && rng.chance(1, 14) {
                match rng.below(4) {
                    0 => RSetter::ModuleColor(ColorSpec::Str("#12\"34".to_string())),
                    1 => RSetter::Image(ImageSpec::Raw("logo \"<draft>.png".to_string())),
                    2 => RSetter::FitWidth(0),
                    _ => RSetter::BackgroundColor(ColorSpec::Str("<none>".to_string())),
                }
            } else {
                gen::gen_rsetter(rng, true, true, sw.faulty)
            };
            if let RSetter::Shape(sh) | RSetter::ShapeColor(sh, _) = &s {
                if sh.0 % N_SHAPES == SHAPE_PANICKY {
                    tg.img_has_panicky[slot as usize] = true;
                }
            }
            ops.push(plain(Op::ImgSet { slot, s }));
        }
        12 => {
            let slot = *rng.pick(&have_img);
            let qr = pick_qr(rng);
            let pixmap = rng.chance(1, 3);
            let cb = if tg.img_has_panicky[slot as usize] && sw.faulty && rng.chance(2, 3) {
                Some(match rng.below(3) {
                    0 => rng.below(5) as u32,
                    1 => rng.below(200) as u32,
                    _ => rng.below(1500) as u32,
                })
            } else {
                None
            };
            ops.push(faulted(rng, sw, Op::ImgRender { slot, qr, pixmap }, cb));
        }
        13 => {
            let qr = pick_qr(rng);
            let print = rng.chance(1, 3);
            ops.push(faulted(rng, sw, Op::Term { qr, print }, None));
        }
        15 => gen_builder_twin(rng, sw, tg, inputs.len(), ops),
        16 => {
            let qr = pick_qr(rng);
            gen_render_twin(rng, sw, tg, false, qr, ops);
        }
        17 => {
            let qr = pick_qr(rng);
            gen_render_twin(rng, sw, tg, true, qr, ops);
        }
        18 => gen_batch_render(rng, sw, tg, inputs.len(), ops),
        19 => {
            // how often the same builder has been used must not matter: counters that wrap,
            // "every n-th call" paths, pools that run dry
            let slot = *rng.pick(&have_b);
            let n = burst_len(rng);
            ops.push(faulted(rng, sw, Op::Burst { slot, n }, None));
        }
        20 => {
            let slot = *rng.pick(&have_svg);
            let qr = pick_qr(rng);
            let n = burst_len(rng).min(6000);
            if !tg.svg_has_panicky[slot as usize] {
                ops.push(faulted(rng, sw, Op::RenderBurst { slot, qr, n }, None));
            }
        }
        24 => gen_callback_panic(rng, sw, tg, inputs.len(), ops),
        25 => gen_change_between_renders(rng, sw, tg, inputs.len(), ops),
        23 => {
            let to = rng.usize_below(N_QR_SLOTS) as u8;
            tg.qrs[to as usize] = true;
            let version = *rng.pick(&[1u8, 1, 2, 3, 5, 7, 10, 27, 40]);
            ops.push(plain(Op::BlankQr { to, version }));
        }
        22 => {
            // "regardless of how many times the setters were called": counters that wrap
            let mut cands: Vec<(u8, u8)> = Vec::new();
            for s in &have_b {
                cands.push((0, *s));
            }
            for s in &have_svg {
                cands.push((1, *s));
            }
            for s in &have_img {
                cands.push((2, *s));
            }
            let (what, slot) = *rng.pick(&cands);
            let n = match rng.weighted(&[4, 3, 3, 1]) {
                0 => rng.range(2, 12),
                1 => rng.range(254, 258),
                2 => rng.range(65_534, 65_538),
                _ => rng.range(100_000, 300_000),
            };
            ops.push(plain(Op::SetBurst { what, slot, n }));
        }
        _ => {
            let from = *rng.pick(&have_q);
            let to = rng.usize_below(N_QR_SLOTS) as u8;
            tg.qrs[to as usize] = true;
            let pos = if rng.chance(1, 2) { rng.below(64) as u32 } else { rng.below(177 * 177) as u32 };
            ops.push(plain(Op::TweakQr { from, to, pos, xor: *rng.pick(&[1u8, 1, 2, 4, 8]) }));
        }
    }
}

/// A user callback fails part-way through a render (the one way a render is left early), then
/// the same renderer, the same thread and a freshly made renderer carry on with ordinary work.
fn gen_callback_panic(rng: &mut Rng, sw: &Swarm, tg: &mut TaskGen, n_inputs: usize, ops: &mut Vec<OpSpec>) {
    let is_img = sw.w_img > 0 && (sw.w_svg == 0 || rng.chance(1, 3));
    let version = *rng.pick(&[1u8, 2, 3, 5, 5]);
    for i in 0..2usize {
        tg.qrs[i] = true;
        ops.push(plain(Op::BuildFresh { input: rng.usize_below(n_inputs.max(1)) as u8, mode: None, ecl: Some(0), version: Some(version), mask: Some(rng.below(8) as u8), out: i as u8 }));
    }
    // one to three layers, one of them the callback that can fail
    let mut setters: Vec<RSetter> = Vec::new();
    let layers = rng.range(1, 3) as usize;
    let at = rng.usize_below(layers);
    for l in 0..layers {
        let sh = if l == at { ShapeSpec(SHAPE_PANICKY) } else { gen::gen_shape(rng, false) };
        setters.push(if rng.chance(1, 2) { RSetter::Shape(sh) } else { RSetter::ShapeColor(sh, gen::gen_color(rng, is_img)) });
    }
    if rng.chance(1, 2) {
        setters.push(gen::gen_rsetter(rng, is_img, is_img, false));
    }
    let make = |slot: u8, tg: &mut TaskGen, ops: &mut Vec<OpSpec>| {
        if is_img {
            tg.imgs[slot as usize] = true;
            tg.img_has_panicky[slot as usize] = true;
            ops.push(plain(Op::NewImg { slot }));
            for s in &setters {
                ops.push(plain(Op::ImgSet { slot, s: s.clone() }));
            }
        } else {
            tg.svgs[slot as usize] = true;
            tg.svg_has_panicky[slot as usize] = true;
            ops.push(plain(Op::NewSvg { slot }));
            for s in &setters {
                ops.push(plain(Op::SvgSet { slot, s: s.clone() }));
            }
        }
    };
    let render = |slot: u8, q: usize| -> Op {
        if is_img {
            Op::ImgRender { slot, qr: QrRef::Local(q as u8), pixmap: false }
        } else {
            Op::SvgRender { slot, qr: QrRef::Local(q as u8) }
        }
    };
    // the callback is invoked once per dark module of its layer: early, in the middle, late
    let side = 17 + 4 * version as u32;
    let k = match rng.below(4) {
        0 => 0,
        1 => rng.below(6) as u32,
        2 => rng.below((side * side / 3) as u64) as u32,
        _ => rng.below((side * side / 2) as u64) as u32,
    };
    make(0, tg, ops);
    if rng.chance(1, 2) {
        ops.push(plain(render(0, 1))); // something ordinary first
    }
    ops.push(OpSpec { op: render(0, 0), crash_at: None, crash_site: None, cb_panic_at: Some(k) });
    ops.push(plain(render(0, 1)));
    ops.push(plain(render(0, 0)));
    make(1, tg, ops);
    ops.push(plain(render(1, 1)));
    ops.push(plain(render(1, 0)));
    // and the thread goes on building
    ops.push(plain(Op::BuildFresh { input: rng.usize_below(n_inputs.max(1)) as u8, mode: None, ecl: None, version: None, mask: None, out: 2 }));
    tg.qrs[2] = true;
}

/// A renderer renders, one option is changed, it renders the same code again - and a freshly
/// made renderer that gets the final options in one go renders it too. Whatever the first render
/// left in the renderer must not survive the setter.
fn gen_change_between_renders(rng: &mut Rng, sw: &Swarm, tg: &mut TaskGen, n_inputs: usize, ops: &mut Vec<OpSpec>) {
    let is_img = sw.w_img > 0 && (sw.w_svg == 0 || rng.chance(1, 3));
    let version = *rng.pick(&[1u8, 2, 3, 5]);
    tg.qrs[0] = true;
    ops.push(plain(Op::BuildFresh { input: rng.usize_below(n_inputs.max(1)) as u8, mode: None, ecl: Some(0), version: Some(version), mask: None, out: 0 }));
    // a renderer with several options set, an embedded image more often than not
    let mut setters: Vec<RSetter> = (0..rng.range(1, 4)).map(|_| gen::gen_rsetter(rng, is_img, is_img, false)).collect();
    if rng.chance(2, 3) {
        setters.push(RSetter::Image(if rng.chance(1, 2) { ImageSpec::Png } else { ImageSpec::Svg }));
    }
    // the one option that changes between the two renders: any kind, biased to the scalar ones
    let change = match rng.below(6) {
        0 => RSetter::Margin(*rng.pick(&[0usize, 1, 3, 6, 9])),
        1 => RSetter::ImageBgShape(rng.below(3) as u8),
        2 => RSetter::ModuleColor(gen::gen_color(rng, is_img)),
        3 => RSetter::BackgroundColor(gen::gen_color(rng, is_img)),
        _ => gen::gen_rsetter(rng, is_img, is_img, false),
    };
    let set = |slot: u8, s: &RSetter| if is_img { Op::ImgSet { slot, s: s.clone() } } else { Op::SvgSet { slot, s: s.clone() } };
    let render = |slot: u8| -> Op {
        if is_img {
            Op::ImgRender { slot, qr: QrRef::Local(0), pixmap: false }
        } else {
            Op::SvgRender { slot, qr: QrRef::Local(0) }
        }
    };
    for slot in [0u8, 1u8] {
        if is_img {
            tg.imgs[slot as usize] = true;
            tg.img_has_panicky[slot as usize] = false;
            ops.push(plain(Op::NewImg { slot }));
        } else {
            tg.svgs[slot as usize] = true;
            tg.svg_has_panicky[slot as usize] = false;
            ops.push(plain(Op::NewSvg { slot }));
        }
    }
    // Sibling renderers (every other time): two renderers whose option lists differ in the value
    // of exactly ONE option - the colour of one coloured shape layer, one shape, one scalar -
    // render the same code back to back, twice. Options that append (shape layers) cannot be
    // "changed" on one renderer, so this is the only way two consecutive renders differ in
    // nothing but such a value; anything remembered from the previous render under a key that
    // leaves that option out shows as a difference from the other occurrences of the state.
    if rng.chance(1, 2) {
        if rng.chance(1, 2) {
            setters.push(RSetter::ShapeColor(gen::gen_shape(rng, false), gen::gen_color(rng, is_img)));
        } else if rng.chance(1, 2) {
            setters.push(RSetter::Shape(gen::gen_shape(rng, false)));
        }
        let i = if matches!(setters.last(), Some(RSetter::ShapeColor(..)) | Some(RSetter::Shape(..))) && rng.chance(2, 3) {
            setters.len() - 1
        } else {
            rng.usize_below(setters.len())
        };
        note_pattern("sibling_renderers");
        let mut sibling = setters.clone();
        sibling[i] = other_value(rng, &setters[i], is_img);
        for s in &setters {
            ops.push(plain(set(0, s)));
        }
        for s in &sibling {
            ops.push(plain(set(1, s)));
        }
        for slot in [0u8, 1, 0, 1] {
            ops.push(plain(render(slot)));
        }
        return;
    }
    for s in &setters {
        ops.push(plain(set(0, s)));
    }
    ops.push(plain(render(0)));
    ops.push(plain(set(0, &change)));
    ops.push(plain(render(0)));
    for s in &setters {
        ops.push(plain(set(1, s)));
    }
    ops.push(plain(set(1, &change)));
    ops.push(plain(render(1)));
}

/// The same option with another value (same shape for a coloured layer: only the colour differs).
fn other_value(rng: &mut Rng, s: &RSetter, is_img: bool) -> RSetter {
    for _ in 0..16 {
        let o = match s {
            RSetter::Margin(m) => RSetter::Margin(if rng.chance(1, 2) { m + 1 } else { *rng.pick(&[0usize, 1, 3, 6, 9]) }),
            RSetter::ModuleColor(_) => RSetter::ModuleColor(gen::gen_color(rng, is_img)),
            RSetter::BackgroundColor(_) => RSetter::BackgroundColor(gen::gen_color(rng, is_img)),
            RSetter::Shape(_) => RSetter::Shape(gen::gen_shape(rng, false)),
            RSetter::ShapeColor(sh, _) => RSetter::ShapeColor(*sh, gen::gen_color(rng, is_img)),
            RSetter::Image(i) => RSetter::Image(if *i == ImageSpec::Png { ImageSpec::Svg } else { ImageSpec::Png }),
            RSetter::ImageBgColor(_) => RSetter::ImageBgColor(gen::gen_color(rng, is_img)),
            RSetter::ImageBgShape(v) => RSetter::ImageBgShape((v + 1 + rng.below(2) as u8) % 3),
            RSetter::ImageSize(_) => RSetter::ImageSize(*rng.pick(&[3.0f64, 5.0, 7.5, 9.0, 11.0])),
            RSetter::ImageGap(_) => RSetter::ImageGap(*rng.pick(&[0.0f64, 0.5, 1.0, 2.0])),
            RSetter::ImagePosition(..) => RSetter::ImagePosition(*rng.pick(&[8.0f64, 10.5, 14.0]), *rng.pick(&[8.0f64, 12.0, 14.5])),
            RSetter::FitWidth(_) => RSetter::FitWidth(*rng.pick(&[16u32, 29, 64, 100, 128, 200, 256])),
            RSetter::FitHeight(_) => RSetter::FitHeight(*rng.pick(&[16u32, 33, 64, 100, 177, 256])),
        };
        if &o != s {
            return o;
        }
    }
    s.clone()
}

fn burst_len(rng: &mut Rng) -> u32 {
    match rng.weighted(&[600, 280, 90, 24, 5, 1]) {
        0 => rng.range(3, 40) as u32,
        1 => rng.range(40, 300) as u32,
        2 => rng.range(257, 1100) as u32,
        3 => rng.range(1100, 5000) as u32,
        4 => rng.range(5000, 20_000) as u32,
        _ => 70_000,
    }
}

/// Batch export: one configured renderer renders several *similar* QR codes back to back (same
/// version; other input, or the same input with another mask or level), then a freshly made
/// renderer with the same options renders the last and the first of them again. A renderer that
/// remembers anything about the previous code shows up as a difference between the two.
fn gen_batch_render(rng: &mut Rng, sw: &Swarm, tg: &mut TaskGen, n_inputs: usize, ops: &mut Vec<OpSpec>) {
    let is_img = sw.w_img > 0 && (sw.w_svg == 0 || rng.chance(1, 2));
    let version = *rng.pick(&[1u8, 1, 1, 2, 2, 3, 5]);
    let k = rng.range(2, 4) as usize;
    let base_input = rng.usize_below(n_inputs.max(1)) as u8;
    let base_mask = rng.below(8) as u8;
    let style = rng.below(4);
    if style == 3 {
        // one code and copies of it that differ in a single module (value or type bit)
        tg.qrs[0] = true;
        ops.push(plain(Op::BuildFresh { input: base_input, mode: None, ecl: Some(0), version: Some(version), mask: Some(base_mask), out: 0 }));
        for i in 1..k {
            tg.qrs[i] = true;
            // the first row, the last row, or anywhere
            let side = 17 + 4 * version as u32;
            let pos = match rng.below(3) {
                0 => rng.below(side as u64) as u32,
                1 => side * (side - 1) + rng.below(side as u64) as u32,
                _ => rng.below((side * side) as u64) as u32,
            };
            let xor = *rng.pick(&[1u8, 1, 2, 4, 8]);
            ops.push(plain(Op::TweakQr { from: 0, to: i as u8, pos, xor }));
        }
    }
    for i in 0..k {
        if style == 3 {
            break;
        }
        let (input, ecl, mask) = match style {
            // other inputs, everything else equal
            0 => (rng.usize_below(n_inputs.max(1)) as u8, Some(0u8), Some(base_mask)),
            // the same input under different masks
            1 => (base_input, Some(0u8), Some((base_mask + i as u8) % 8)),
            // the same input at different levels (and whatever mask wins)
            _ => (base_input, Some((i % 4) as u8), None),
        };
        tg.qrs[i] = true;
        ops.push(plain(Op::BuildFresh { input, mode: None, ecl, version: Some(version), mask, out: i as u8 }));
    }
    let n = rng.range(0, 3) as usize;
    let setters: Vec<RSetter> = (0..n).map(|_| gen::gen_rsetter(rng, is_img, is_img, false)).collect();
    let make = |slot: u8, tg: &mut TaskGen, ops: &mut Vec<OpSpec>| {
        if is_img {
            tg.imgs[slot as usize] = true;
            tg.img_has_panicky[slot as usize] = false;
            ops.push(plain(Op::NewImg { slot }));
            for s in &setters {
                ops.push(plain(Op::ImgSet { slot, s: s.clone() }));
            }
        } else {
            tg.svgs[slot as usize] = true;
            tg.svg_has_panicky[slot as usize] = false;
            ops.push(plain(Op::NewSvg { slot }));
            for s in &setters {
                ops.push(plain(Op::SvgSet { slot, s: s.clone() }));
            }
        }
    };
    let pixmap = rng.chance(1, 3);
    let render = |slot: u8, q: usize| -> Op {
        if is_img {
            Op::ImgRender { slot, qr: QrRef::Local(q as u8), pixmap }
        } else {
            Op::SvgRender { slot, qr: QrRef::Local(q as u8) }
        }
    };
    make(0, tg, ops);
    for i in 0..k {
        ops.push(faulted(rng, sw, render(0, i), None));
    }
    if is_img && rng.chance(1, 3) {
        // the logo file behind the image option changes between two renders of one renderer
        let a = rng.below(3) as u8;
        let b = (a + 1 + rng.below(2) as u8) % 3;
        ops.push(plain(Op::ImgSet { slot: 0, s: RSetter::Image(ImageSpec::File(a)) }));
        ops.push(plain(render(0, 0)));
        // ... or the next logo is named by a relative path (another directory altogether)
        let second = if rng.chance(1, 2) { ImageSpec::RelFile(b) } else { ImageSpec::File(b) };
        ops.push(plain(Op::ImgSet { slot: 0, s: RSetter::Image(second) }));
        ops.push(plain(render(0, 0)));
        ops.push(plain(render(0, k - 1)));
        return;
    }
    make(1, tg, ops);
    ops.push(plain(render(1, k - 1)));
    ops.push(plain(render(1, 0)));
    // and the long-lived renderer once more on the first code
    ops.push(plain(render(0, 0)));
    // the caller's variable is reused: another code of the same version now lives where the
    // first one was; both renderers render "the same variable" again
    let other_mask = (base_mask + 1 + rng.below(7) as u8) % 8;
    ops.push(plain(Op::BuildFresh { input: rng.usize_below(n_inputs.max(1)) as u8, mode: None, ecl: Some(0), version: Some(version), mask: Some(other_mask), out: 0 }));
    ops.push(plain(render(0, 0)));
    ops.push(plain(render(1, 0)));
}

// ---------------------------------------------------------------------------
// Order twins: two different call orders that must reach the same final options
// ---------------------------------------------------------------------------

fn rkind(s: &RSetter) -> Option<u8> {
    Some(match s {
        RSetter::Margin(_) => 0,
        RSetter::ModuleColor(_) => 1,
        RSetter::BackgroundColor(_) => 2,
        RSetter::Image(_) => 3,
        RSetter::ImageBgColor(_) => 4,
        RSetter::ImageBgShape(_) => 5,
        RSetter::ImageSize(_) => 6,
        RSetter::ImageGap(_) => 7,
        RSetter::ImagePosition(_, _) => 8,
        RSetter::FitWidth(_) => 9,
        RSetter::FitHeight(_) => 10,
        RSetter::Shape(_) | RSetter::ShapeColor(_, _) => return None,
    })
}

fn bkind(s: &BSetter) -> u8 {
    match s {
        BSetter::Mode(_) => 0,
        BSetter::Ecl(_) => 1,
        BSetter::Version(_) => 2,
        BSetter::Mask(_) => 3,
    }
}

/// A random reordering that provably reaches the same model: the appended
/// items keep their relative order, and for every scalar option the call that
/// was last stays last among the calls of that option.
fn model_preserving_shuffle<T: Clone>(rng: &mut Rng, items: &[T], kind: impl Fn(&T) -> Option<u8>) -> Vec<T> {
    let n = items.len();
    let unit = |rng: &mut Rng| (rng.below(1_000_000) as f64 + 1.0) / 1_000_001.0;
    let mut keys = vec![0.0f64; n];
    // appended items: increasing keys
    let app: Vec<usize> = (0..n).filter(|&i| kind(&items[i]).is_none()).collect();
    let mut ak: Vec<f64> = app.iter().map(|_| unit(rng)).collect();
    ak.sort_by(|a, b| a.partial_cmp(b).unwrap());
    for (j, &i) in app.iter().enumerate() {
        keys[i] = ak[j];
    }
    // scalars: the final call of each kind gets a free key, earlier calls a smaller one
    for k in 0..=10u8 {
        let of_kind: Vec<usize> = (0..n).filter(|&i| kind(&items[i]) == Some(k)).collect();
        if let Some((&last, earlier)) = of_kind.split_last() {
            let fk = 0.05 + 0.95 * unit(rng);
            keys[last] = fk;
            for &i in earlier {
                keys[i] = fk * unit(rng) * 0.999;
            }
        }
    }
    let mut order: Vec<usize> = (0..n).collect();
    order.sort_by(|&a, &b| keys[a].partial_cmp(&keys[b]).unwrap().then(a.cmp(&b)));
    order.into_iter().map(|i| items[i].clone()).collect()
}

/// Two builders over the same input, the same setter multiset in two orders, both built.
fn gen_builder_twin(rng: &mut Rng, sw: &Swarm, tg: &mut TaskGen, n_inputs: usize, ops: &mut Vec<OpSpec>) {
    let input = rng.usize_below(n_inputs) as u8;
    let n = rng.range(2, 6) as usize;
    let mut setters: Vec<BSetter> = (0..n).map(|_| gen::gen_bsetter(rng, sw.vmax)).collect();
    // make overwriting likely: repeat one option with another value
    if rng.chance(1, 2) {
        let again = match rng.pick(&setters).clone() {
            BSetter::Mode(_) => BSetter::Mode(2),
            BSetter::Ecl(_) => BSetter::Ecl(rng.below(4) as u8),
            BSetter::Version(_) => BSetter::Version(rng.range(1, sw.vmax as u64) as u8),
            BSetter::Mask(_) => BSetter::Mask(rng.below(8) as u8),
        };
        setters.push(again);
    }
    let twin = model_preserving_shuffle(rng, &setters, |s| Some(bkind(s)));
    debug_assert_eq!(
        setters.iter().fold(QrCfg::default(), |mut m, s| {
            m.apply(s);
            m
        }),
        twin.iter().fold(QrCfg::default(), |mut m, s| {
            m.apply(s);
            m
        }),
        "twin must reach the same builder model"
    );
    let (sa, sb) = (0u8, 1u8);
    tg.builders[sa as usize] = true;
    tg.builders[sb as usize] = true;
    ops.push(plain(Op::NewBuilder { slot: sa, input }));
    for s in &setters {
        ops.push(plain(Op::Set { slot: sa, s: s.clone() }));
    }
    ops.push(plain(Op::NewBuilder { slot: sb, input }));
    for s in &twin {
        ops.push(plain(Op::Set { slot: sb, s: s.clone() }));
    }
    let (oa, ob) = (rng.usize_below(N_QR_SLOTS) as u8, rng.usize_below(N_QR_SLOTS) as u8);
    tg.qrs[oa as usize] = true;
    tg.qrs[ob as usize] = true;
    ops.push(faulted(rng, sw, Op::Build { slot: sa, out: oa }, None));
    ops.push(faulted(rng, sw, Op::Build { slot: sb, out: ob }, None));
}

/// Two renderer builders, the same setter multiset in two orders, both rendered on the same QR code.
fn gen_render_twin(rng: &mut Rng, sw: &Swarm, tg: &mut TaskGen, is_img: bool, qr: QrRef, ops: &mut Vec<OpSpec>) {
    let n = rng.range(2, 7) as usize;
    let mut setters: Vec<RSetter> = (0..n).map(|_| gen::gen_rsetter(rng, is_img, is_img, false)).collect();
    // the interesting pairs: a shape next to the colour it will be drawn with, an option set twice
    if rng.chance(2, 3) {
        setters.push(RSetter::Shape(gen::gen_shape(rng, false)));
        setters.push(RSetter::ModuleColor(gen::gen_color(rng, is_img)));
    }
    if rng.chance(1, 3) {
        setters.push(RSetter::Margin(*rng.pick(&[0usize, 1, 3, 6])));
        setters.push(RSetter::Margin(*rng.pick(&[2usize, 5])));
    }
    let first = model_preserving_shuffle(rng, &setters, rkind);
    let twin = model_preserving_shuffle(rng, &setters, rkind);
    debug_assert_eq!(RenderModel::from_setters(&first, is_img), RenderModel::from_setters(&setters, is_img));
    debug_assert_eq!(RenderModel::from_setters(&twin, is_img), RenderModel::from_setters(&setters, is_img));
    for (slot, list) in [(0u8, &first), (1u8, &twin)] {
        if is_img {
            tg.imgs[slot as usize] = true;
            tg.img_has_panicky[slot as usize] = false;
            ops.push(plain(Op::NewImg { slot }));
            for s in list.iter() {
                ops.push(plain(Op::ImgSet { slot, s: s.clone() }));
            }
        } else {
            tg.svgs[slot as usize] = true;
            tg.svg_has_panicky[slot as usize] = false;
            ops.push(plain(Op::NewSvg { slot }));
            for s in list.iter() {
                ops.push(plain(Op::SvgSet { slot, s: s.clone() }));
            }
        }
    }
    for slot in [0u8, 1u8] {
        let op = if is_img { Op::ImgRender { slot, qr, pixmap: false } } else { Op::SvgRender { slot, qr } };
        ops.push(faulted(rng, sw, op, None));
    }
}
