//! Miri leg of C14 (thorough tier only). Filled in by a later step.

use serde_json::{json, Value};

pub fn miri_leg(_seed: u64) -> (Value, Option<(String, String)>) {
    (json!({"ran": false, "reason": "not built yet"}), None)
}

pub fn miri_replay(_v: &Value, _path: &str) -> i32 {
    eprintln!("harness error: miri replay not available");
    2
}
