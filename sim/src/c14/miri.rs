//! Miri leg of C14 (thorough tier only): the small fixed scenarios of
//! /verif/miri-c14 under Miri's seeded scheduler. Where the native engine
//! interleaves only at `verif_point!` sites, Miri preempts at basic-block
//! granularity, owns every std::sync primitive and atomic, and reports data
//! races by happens-before analysis. One (scenario, seed) is one exactly
//! repeatable execution.

use std::process::Command;
use std::time::Instant;

use serde_json::{json, Value};

use crate::report;


const BASE_FLAGS: &str = "-Zmiri-preemption-rate=0.05 -Zmiri-disable-stacked-borrows -Zmiri-disable-validation";
pub const N_SCENARIOS: u64 = 8;

fn run_miri(scenario: u64, seed_flag: &str, timeout_s: u64) -> Result<(bool, String), String> {
    let flags = format!("{} {}", seed_flag, BASE_FLAGS);
    let out = Command::new("timeout")
        .arg(timeout_s.to_string())
        .args(["cargo", "+nightly", "miri", "run", "--offline", "--target-dir", &format!("{}/target/miri", report::verif_dir()), "--"])
        .arg(scenario.to_string())
        .current_dir(format!("{}/miri-c14", report::verif_dir()))
        .env("MIRIFLAGS", flags)
        .env("CARGO_NET_OFFLINE", "true")
        .env("CARGO_TERM_COLOR", "never")
        .output()
        .map_err(|e| format!("cannot start cargo miri: {}", e))?;
    let text = format!("{}\n{}", String::from_utf8_lossy(&out.stdout), String::from_utf8_lossy(&out.stderr));
    if out.status.code() == Some(124) {
        return Err(format!("miri timed out after {} s", timeout_s));
    }
    Ok((out.status.success(), text))
}

fn failing_seed(text: &str) -> Option<u64> {
    for l in text.lines() {
        let low = l.to_ascii_lowercase();
        if low.contains("failing seed") {
            if let Some(n) = l.split(|c: char| !c.is_ascii_digit()).filter(|s| !s.is_empty()).last() {
                return n.parse().ok();
            }
        }
    }
    None
}

fn excerpt(text: &str) -> String {
    let keep: Vec<&str> = text
        .lines()
        .filter(|l| {
            let l = l.trim_start();
            l.starts_with("error") || l.contains("C14:") || l.contains("Data race") || l.contains("panicked") || l.to_ascii_lowercase().contains("failing seed") || l.contains("-->")
        })
        .take(30)
        .collect();
    keep.join("\n")
}

/// Is this a failure of the harness/toolchain rather than of the scenario?
fn toolchain_problem(text: &str) -> bool {
    text.contains("could not compile") || text.contains("no such command") || text.contains("is not installed") || text.contains("failed to load source") || text.contains("error: no matching package")
}

/// Returns (evidence fragment, violation = (detail, replay path)).
pub fn miri_leg(seed: u64) -> (Value, Option<(String, String)>) {
    let t0 = Instant::now();
    let seeds_per = std::env::var("VERIF_MIRI_SEEDS").ok().and_then(|s| s.parse().ok()).unwrap_or(8u64);
    let base = (seed % 100_000) * 1000;
    let mut runs = 0u64;
    let mut per_scenario = Vec::new();
    for sc in 0..N_SCENARIOS {
        let a = base + sc * seeds_per;
        let b = a + seeds_per;
        let flag = format!("-Zmiri-many-seeds={}..{}", a, b);
        match run_miri(sc, &flag, 1500) {
            Err(e) => {
                return (json!({"ran": false, "reason": e, "wall_s": t0.elapsed().as_secs_f64()}), None);
            }
            Ok((true, text)) => {
                let oks = text.matches("miri-c14 scenario").count() as u64;
                runs += oks;
                per_scenario.push(json!({"scenario": sc, "seeds": [a, b - 1], "executions_ok": oks}));
            }
            Ok((false, text)) => {
                if toolchain_problem(&text) {
                    return (
                        json!({"ran": false, "reason": format!("miri toolchain problem: {}", excerpt(&text)), "wall_s": t0.elapsed().as_secs_f64()}),
                        None,
                    );
                }
                let fs = failing_seed(&text);
                let detail = format!(
                    "Miri leg: scenario {} failed under seed {} (range {}..{}):\n{}",
                    sc,
                    fs.map(|s| s.to_string()).unwrap_or_else(|| "?".into()),
                    a,
                    b,
                    excerpt(&text)
                );
                let replay = json!({
                    "property": "C14",
                    "engine": "miri-c14",
                    "verif_seed": seed,
                    "scenario": sc,
                    "miri_seed": fs,
                    "seed_range": [a, b],
                    "miri_flags": BASE_FLAGS,
                    "violation": {"invariant": "MIRI", "detail": detail},
                    "replay_cmd": "./check C14 --replay <this file>",
                });
                let path = report::write_replay("C14", &format!("MIRI-scenario{}", sc), &replay)
                    .map(|p| p.display().to_string())
                    .unwrap_or_else(|_| "<unwritable>".into());
                return (
                    json!({"ran": true, "executions": runs, "failed_scenario": sc, "failing_seed": fs, "wall_s": t0.elapsed().as_secs_f64()}),
                    Some((detail, path)),
                );
            }
        }
    }
    (
        json!({
            "ran": true,
            "executions": runs,
            "scenarios": per_scenario,
            "flags": BASE_FLAGS,
            "what": "4 caller threads (2 building through shared and fresh builders, 1 rendering a shared Arc<QRCode>, optionally 1 dying mid-build) compared with a sequential reference; data-race detection on",
            "wall_s": (t0.elapsed().as_secs_f64() * 10.0).round() / 10.0,
        }),
        None,
    )
}

pub fn miri_replay(v: &Value, path: &str) -> i32 {
    let sc = v["scenario"].as_u64().unwrap_or(0);
    let flag = match v["miri_seed"].as_u64() {
        Some(s) => format!("-Zmiri-seed={}", s),
        None => {
            let a = v["seed_range"][0].as_u64().unwrap_or(0);
            let b = v["seed_range"][1].as_u64().unwrap_or(a + 1);
            format!("-Zmiri-many-seeds={}..{}", a, b)
        }
    };
    match run_miri(sc, &flag, 1500) {
        Err(e) => {
            eprintln!("harness error: {}", e);
            2
        }
        Ok((true, _)) => {
            println!("replay did not produce a violation on this tree");
            0
        }
        Ok((false, text)) => {
            if toolchain_problem(&text) {
                eprintln!("harness error: miri toolchain problem: {}", excerpt(&text));
                return 2;
            }
            println!("replayed: Miri leg scenario {} fails:\n{}", sc, excerpt(&text));
            println!("VIOLATION property=C14 replay={}", path);
            1
        }
    }
}
