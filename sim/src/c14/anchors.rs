//! I2 — pristine anchors. A fixed, seed-independent catalogue of
//! configurations; each is evaluated in its own fresh process that does
//! exactly one build (and then renders that one QR code), so the recorded
//! outcome cannot be influenced by any earlier call.

use std::panic::{catch_unwind, AssertUnwindSafe};

use serde_json::{json, Value};

use super::{Pristine, MAX_RASTER_QR_SIZE};
use crate::pool;
use crate::spec::*;

fn digits(n: usize) -> Vec<u8> {
    (0..n).map(|i| b'0' + ((i * 7 + 3) % 10) as u8).collect()
}
fn alnum(n: usize) -> Vec<u8> {
    const A: &[u8] = b"0123456789ABCDEFGHIJKLMNOPQRSTUVWXYZ $%*+-./:";
    (0..n).map(|i| A[(i * 11 + 5) % A.len()]).collect()
}
fn bytes(n: usize) -> Vec<u8> {
    (0..n).map(|i| ((i * 131 + 17) % 256) as u8).collect()
}

/// 64 fixed configurations: 3 modes x 4 levels, forced/auto version and mask,
/// V1..V40 spread, both error cases, the documented alphabet panics.
pub fn catalogue() -> Vec<QrCfg> {
    let mut v: Vec<QrCfg> = Vec::new();
    let c = |input: Vec<u8>, mode: Option<u8>, ecl: Option<u8>, version: Option<u8>, mask: Option<u8>| QrCfg { input, mode, ecl, version, mask };
    // 0..12: every mode x level, auto version, auto mask, small
    for (mi, inp) in [digits(23), alnum(19), b"https://example.com/?q=anchor".to_vec()].into_iter().enumerate() {
        for e in 0..4u8 {
            v.push(c(inp.clone(), if e % 2 == 0 { None } else { Some(mi as u8) }, Some(e), None, None));
        }
    }
    // 12..20: all eight masks forced on one input
    for k in 0..8u8 {
        v.push(c(b"mask anchor 0123456789".to_vec(), None, None, None, Some(k)));
    }
    // 20..36: forced versions across the range (incl. the version-info threshold 6/7 and 40)
    for (i, ver) in [1u8, 2, 3, 6, 7, 8, 10, 14, 15, 20, 21, 26, 27, 33, 39, 40].into_iter().enumerate() {
        v.push(c(alnum(10 + i), None, Some((i % 4) as u8), Some(ver), if i % 3 == 0 { Some((i % 8) as u8) } else { None }));
    }
    // 36..46: auto version driven by length (byte mode), spread up to V40
    for (i, n) in [1usize, 17, 60, 150, 400, 800, 1200, 1700, 2300, 2900].into_iter().enumerate() {
        v.push(c(bytes(n), None, Some(0), None, if i % 2 == 0 { None } else { Some(((i * 3) % 8) as u8) }));
    }
    // 46..50: numeric / alphanumeric at large sizes
    v.push(c(digits(3000), None, Some(1), None, None));
    v.push(c(digits(7089), None, Some(0), None, None));
    v.push(c(alnum(2000), None, Some(2), None, None));
    v.push(c(alnum(4296), None, Some(0), None, None));
    // 50..54: Err(EncodedData)
    v.push(c(digits(7090), None, Some(0), None, None));
    v.push(c(bytes(2954), None, Some(0), None, None));
    v.push(c(bytes(1274), None, Some(3), None, None));
    v.push(c(alnum(4297), Some(1), Some(0), None, None));
    // 54..58: Err(SpecifiedVersion)
    v.push(c(bytes(100), None, Some(3), Some(1), None));
    v.push(c(digits(500), None, Some(2), Some(3), None));
    v.push(c(alnum(300), None, Some(1), Some(5), Some(2)));
    v.push(c(bytes(2000), None, Some(0), Some(39), None));
    // 58..60: documented alphabet panics (forced mode on a foreign input)
    v.push(c(b"12a45".to_vec(), Some(0), None, None, None));
    v.push(c(b"lowercase".to_vec(), Some(1), Some(1), None, None));
    // 60..64: edge inputs
    v.push(c(Vec::new(), None, None, None, None));
    v.push(c(vec![0xEC, 0x11, 0xEC, 0x11, 0xEC, 0x11, 0xEC], None, Some(0), Some(1), None));
    v.push(c(vec![0u8; 40], Some(2), Some(3), None, Some(7)));
    v.push(c(vec![0xFFu8; 33], None, Some(2), Some(9), Some(0)));
    debug_assert_eq!(v.len(), 64);
    v
}

pub fn svg_default_key(qr_digest: &str) -> String {
    format!("R|svg|{}|{}", RenderModel::default().key(), qr_digest)
}
pub fn png_default_key(qr_digest: &str) -> String {
    format!("R|png|{}|{}", RenderModel::default().key(), qr_digest)
}
pub fn term_key(qr_digest: &str) -> String {
    format!("R|term|{}", qr_digest)
}

/// `fqsim c14-anchor <i>`: the pristine process. Exactly one build, then the default renders of its result.
pub fn anchor_main(args: &[String]) -> i32 {
    crate::quiet_panics();
    let i: usize = match args.first().and_then(|s| s.parse().ok()) {
        Some(i) => i,
        None => return 2,
    };
    let cat = catalogue();
    let Some(cfg) = cat.get(i) else { return 2 };
    let b = cfg.fresh_builder();
    let r = catch_unwind(AssertUnwindSafe(|| b.build()));
    let (outcome, qr) = match r {
        Ok(res) => (build_outcome(&res), res.ok()),
        Err(p) => (Outcome::Panic(panic_message(p.as_ref())), None),
    };
    let mut renders: Vec<(String, Outcome)> = Vec::new();
    if let (Some(qr), Outcome::Ok(d)) = (&qr, &outcome) {
        let svg = catch_unwind(AssertUnwindSafe(|| fast_qr::convert::svg::SvgBuilder::default().to_str(qr)));
        renders.push((
            svg_default_key(d),
            match svg {
                Ok(s) => bytes_outcome(s.as_bytes()),
                Err(p) => Outcome::Panic(panic_message(p.as_ref())),
            },
        ));
        let term = catch_unwind(AssertUnwindSafe(|| qr.to_str()));
        renders.push((
            term_key(d),
            match term {
                Ok(s) => bytes_outcome(s.as_bytes()),
                Err(p) => Outcome::Panic(panic_message(p.as_ref())),
            },
        ));
        if qr.size <= MAX_RASTER_QR_SIZE {
            let png = catch_unwind(AssertUnwindSafe(|| fast_qr::convert::image::ImageBuilder::default().to_bytes(qr)));
            renders.push((
                png_default_key(d),
                match png {
                    Ok(Ok(b)) => bytes_outcome(&b),
                    Ok(Err(e)) => Outcome::Err(format!("{:?}", e)),
                    Err(p) => Outcome::Panic(panic_message(p.as_ref())),
                },
            ));
        }
    }
    println!("\n{}", json!({"anchor": i, "key": cfg.key(), "outcome": outcome, "renders": renders}));
    0
}

/// Evaluates the whole catalogue, one fresh process per anchor.
pub fn compute_pristine(max_parallel: usize) -> Result<Pristine, String> {
    let n = catalogue().len();
    let argvs: Vec<Vec<String>> = (0..n).map(|i| vec!["c14-anchor".to_string(), i.to_string()]).collect();
    let outs = pool::run_children_limited(&argvs, max_parallel);
    let mut p = Pristine::default();
    for (i, o) in outs.iter().enumerate() {
        if o.code != Some(0) {
            return Err(format!("anchor process {} failed: code={:?} signal={:?} stderr={}", i, o.code, o.signal, o.stderr));
        }
        let line = o.lines.iter().rev().find(|l| l.starts_with('{')).ok_or(format!("anchor {}: no output", i))?;
        let v: Value = serde_json::from_str(line).map_err(|e| e.to_string())?;
        let key = v["key"].as_str().ok_or("no key")?.to_string();
        let outcome: Outcome = serde_json::from_value(v["outcome"].clone()).map_err(|e| e.to_string())?;
        p.builds.insert(key, outcome);
        let renders: Vec<(String, Outcome)> = serde_json::from_value(v["renders"].clone()).map_err(|e| e.to_string())?;
        for (k, o) in renders {
            p.renders.insert(k, o);
        }
    }
    Ok(p)
}
