//! Minimisation of a failing C14 episode list: episodes -> tasks -> operations
//! -> faults -> schedule -> operands. A candidate is kept only if a fresh
//! process still reports the same invariant on the same operation kind.

use serde_json::{json, Value};

use super::driver::exec_fresh;
use super::sched::Policy;
use super::*;

struct Shrinker<'a> {
    class: String,
    pristine: &'a str,
    evals: u32,
    max_evals: u32,
    best_v: Violation,
    /// false once the failure is known to reproduce with tasks run one after the other
    schedule_matters: bool,
    /// schedule seed (of the last episode) under which the current candidate fails
    good_seed: Option<u64>,
}

impl Shrinker<'_> {
    fn fails_once(&mut self, cand: &[Episode]) -> bool {
        if self.evals >= self.max_evals {
            return false;
        }
        self.evals += 1;
        match exec_fresh(cand, self.pristine) {
            Ok(o) => match o.violation {
                Some(v) if v.class() == self.class => {
                    self.best_v = v;
                    true
                }
                _ => false,
            },
            Err(_) => false,
        }
    }

    /// Does the candidate still fail? Dropping an operation shifts the seeded schedule, so
    /// a schedule-dependent failure may hide; in that case a few other schedule seeds are
    /// tried for the last episode and, if one fails, it becomes part of the candidate.
    fn still_fails(&mut self, cand: &[Episode]) -> bool {
        let mut cand: Vec<Episode> = cand.to_vec();
        let Some(last) = cand.len().checked_sub(1) else { return false };
        if let Some(sd) = self.good_seed {
            cand[last].sched.seed = sd;
        }
        if self.fails_once(&cand) {
            return true;
        }
        if !self.schedule_matters || matches!(cand[last].sched.policy, Policy::Sequential) {
            return false;
        }
        let orig = cand[last].sched.seed;
        for k in 1..=4u64 {
            let sd = crate::rng::mix(orig, k);
            cand[last].sched.seed = sd;
            if self.fails_once(&cand) {
                self.good_seed = Some(sd);
                return true;
            }
        }
        false
    }
}

/// ddmin over a list of `n` items; `test(keep)` says whether the subset still fails.
/// Halves the chunk size down to 1, then repeats single-item removal to a fixpoint.
fn ddmin(n: usize, mut test: impl FnMut(&[bool]) -> bool) -> Vec<bool> {
    let mut keep = vec![true; n];
    if n == 0 {
        return keep;
    }
    let mut chunk = (n + 1) / 2;
    loop {
        let idxs: Vec<usize> = (0..n).filter(|&i| keep[i]).collect();
        let mut progress = false;
        let mut pos = 0;
        while pos < idxs.len() {
            let part = &idxs[pos..(pos + chunk).min(idxs.len())];
            let mut cand = keep.clone();
            for &i in part {
                cand[i] = false;
            }
            if test(&cand) {
                keep = cand;
                progress = true;
            }
            pos += chunk;
        }
        if chunk == 1 {
            if !progress {
                break;
            }
        } else {
            chunk = (chunk + 1) / 2;
        }
    }
    keep
}

pub fn minimise(episodes: &[Episode], v: &Violation, pristine: &str) -> (Vec<Episode>, Violation, Value) {
    let mut s = Shrinker {
        class: v.class(),
        pristine,
        evals: 0,
        max_evals: 600,
        best_v: v.clone(),
        schedule_matters: true,
        good_seed: None,
    };
    let mut cur: Vec<Episode> = episodes.to_vec();
    let ops_before: usize = cur.iter().map(|e| e.n_ops()).sum();
    let eps_before = cur.len();

    // 0. is the schedule relevant at all? (most history defects fail with tasks run in id order;
    //    then every later step is independent of PRNG consumption)
    {
        let last = cur.len() - 1;
        if cur[last].sched.policy != Policy::Sequential {
            let mut cand = cur.clone();
            cand[last].sched.policy = Policy::Sequential;
            if s.fails_once(&cand) {
                cur = cand;
                s.schedule_matters = false;
            }
        } else {
            s.schedule_matters = false;
        }
    }

    // 1. episodes (the last one is where the violation shows)
    if cur.len() > 1 {
        let n = cur.len() - 1;
        let base = cur.clone();
        let keep = ddmin(n, |k| {
            let mut cand: Vec<Episode> = base[..n].iter().zip(k.iter()).filter(|(_, kk)| **kk).map(|(e, _)| e.clone()).collect();
            cand.push(base[n].clone());
            s.still_fails(&cand)
        });
        let mut next: Vec<Episode> = base[..n].iter().zip(keep.iter()).filter(|(_, kk)| **kk).map(|(e, _)| e.clone()).collect();
        next.push(base[n].clone());
        cur = next;
    }

    // 2. within every episode: tasks, then operations
    for ei in (0..cur.len()).rev() {
        // 2a. empty whole tasks
        for t in 0..cur[ei].tasks.len() {
            if cur[ei].tasks[t].is_empty() {
                continue;
            }
            let mut cand = cur.clone();
            cand[ei].tasks[t].clear();
            if s.still_fails(&cand) {
                cur = cand;
            }
        }
        // 2b. operations, ddmin per task (dropping is always well-formed: an op whose operand slot is empty does nothing)
        for t in 0..cur[ei].tasks.len() {
            let n = cur[ei].tasks[t].len();
            if n == 0 {
                continue;
            }
            let base = cur.clone();
            let keep = ddmin(n, |k| {
                let mut cand = base.clone();
                cand[ei].tasks[t] = base[ei].tasks[t].iter().zip(k.iter()).filter(|(_, kk)| **kk).map(|(o, _)| o.clone()).collect();
                s.still_fails(&cand)
            });
            cur[ei].tasks[t] = base[ei].tasks[t].iter().zip(keep.iter()).filter(|(_, kk)| **kk).map(|(o, _)| o.clone()).collect();
        }
        // 2c. faults
        for t in 0..cur[ei].tasks.len() {
            for o in 0..cur[ei].tasks[t].len() {
                if cur[ei].tasks[t][o].crash_at.is_some() {
                    let mut cand = cur.clone();
                    cand[ei].tasks[t][o].crash_at = None;
                    if s.still_fails(&cand) {
                        cur = cand;
                    }
                }
                if cur[ei].tasks[t][o].crash_site.is_some() {
                    let mut cand = cur.clone();
                    cand[ei].tasks[t][o].crash_site = None;
                    if s.still_fails(&cand) {
                        cur = cand;
                    }
                }
                if cur[ei].tasks[t][o].cb_panic_at.is_some() {
                    let mut cand = cur.clone();
                    cand[ei].tasks[t][o].cb_panic_at = None;
                    if s.still_fails(&cand) {
                        cur = cand;
                    }
                }
            }
        }
        // 2d. shared objects
        for k in (0..cur[ei].shared_qrs.len()).rev() {
            let mut cand = cur.clone();
            cand[ei].shared_qrs.remove(k);
            if s.still_fails(&cand) {
                cur = cand;
            }
        }
        for k in (0..cur[ei].shared_builders.len()).rev() {
            let mut cand = cur.clone();
            cand[ei].shared_builders.remove(k);
            if s.still_fails(&cand) {
                cur = cand;
            }
        }
        // 2e. schedule: is it relevant at all?
        let mut schedule_note = "needs its seeded schedule";
        if cur[ei].sched.policy != Policy::Sequential {
            let mut cand = cur.clone();
            cand[ei].sched.policy = Policy::Sequential;
            if s.still_fails(&cand) {
                cur = cand;
                schedule_note = "schedule irrelevant: fails with tasks run to completion in id order";
            } else {
                let mut cand = cur.clone();
                cand[ei].sched.policy = Policy::OpBoundary(1.0);
                if s.still_fails(&cand) {
                    cur = cand;
                    schedule_note = "fails when switching only between operations";
                }
            }
        } else {
            schedule_note = "schedule irrelevant: sequential";
        }
        let _ = schedule_note;
        // 2f. drop tasks that became empty (renumbering is safe only if no Starve victim index is used)
        if !matches!(cur[ei].sched.policy, Policy::Starve(_, _)) {
            let mut cand = cur.clone();
            cand[ei].tasks.retain(|t| !t.is_empty());
            if cand[ei].tasks.len() != cur[ei].tasks.len() && !cand[ei].tasks.is_empty() && s.still_fails(&cand) {
                cur = cand;
            }
        }
        // 2g'. shorter bursts
        for t in 0..cur[ei].tasks.len() {
            for oi in 0..cur[ei].tasks[t].len() {
                loop {
                    let n = match &cur[ei].tasks[t][oi].op {
                        super::Op::Burst { n, .. } | super::Op::RenderBurst { n, .. } => *n,
                        _ => break,
                    };
                    if n <= 2 {
                        break;
                    }
                    let mut cand = cur.clone();
                    match &mut cand[ei].tasks[t][oi].op {
                        super::Op::Burst { n, .. } | super::Op::RenderBurst { n, .. } => *n /= 2,
                        _ => {}
                    }
                    if s.still_fails(&cand) {
                        cur = cand;
                    } else {
                        break;
                    }
                }
            }
        }
        // 2g. operand simplification: shorter inputs
        for i in 0..cur[ei].inputs.len() {
            while cur[ei].inputs[i].len() > 1 {
                let mut cand = cur.clone();
                let n = cand[ei].inputs[i].len() / 2;
                cand[ei].inputs[i].truncate(n.max(1));
                if s.still_fails(&cand) {
                    cur = cand;
                } else {
                    break;
                }
            }
        }
    }

    if let (Some(sd), Some(last)) = (s.good_seed, cur.len().checked_sub(1)) {
        cur[last].sched.seed = sd;
    }
    let ops_after: usize = cur.iter().map(|e| e.n_ops()).sum();
    let mut final_v = s.best_v.clone();
    if let Ok(o) = exec_fresh(&cur, pristine) {
        if let Some(v2) = o.violation {
            if v2.class() == s.class {
                final_v = v2;
            }
        }
    }
    let info = json!({
        "episodes_before": eps_before,
        "episodes_after": cur.len(),
        "ops_before": ops_before,
        "ops_after": ops_after,
        "schedule": cur.iter().map(|e| e.sched.policy.name()).collect::<Vec<_>>(),
        "fresh_process_evaluations": s.evals,
        "evaluation_cap_reached": s.evals >= s.max_evals,
    });
    (cur, final_v, info)
}
