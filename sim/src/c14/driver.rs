//! C14 driver: pristine anchors, worker processes, confirmation in a fresh
//! process, minimisation, evidence.

use std::collections::{BTreeMap, BTreeSet};
use std::time::Instant;

use serde_json::{json, Value};

use super::anchors::compute_pristine;
use super::egen::gen_episode;
use super::sched::SchedStats;
use super::*;
use crate::pool::{self, arg_u64, arg_value};
use crate::report::{self, KnownFindings, Tier};

fn load_pristine(path: &str) -> Result<Pristine, String> {
    let t = std::fs::read_to_string(path).map_err(|e| format!("{}: {}", path, e))?;
    serde_json::from_str(&t).map_err(|e| e.to_string())
}

// ---------------------------------------------------------------------------
// Worker process
// ---------------------------------------------------------------------------

#[derive(Default, serde::Serialize, serde::Deserialize)]
pub struct WorkerStats {
    pub episodes: u64,
    pub ops: u64,
    pub sched: SchedStats,
    pub oracle: OracleStats,
    pub by_policy: BTreeMap<String, u64>,
    pub by_tasks: BTreeMap<String, u64>,
    pub by_class: BTreeMap<String, u64>,
    pub samples: Vec<Value>,
    pub stopped_by_time_cap: bool,
    /// process images (segments) this worker went through
    #[serde(default)]
    pub process_starts: u64,
}

impl WorkerStats {
    fn add(&mut self, ep: &Episode, r: &EpisodeResult) {
        self.episodes += 1;
        self.ops += r.n_ops as u64;
        self.sched.merge(&r.sched);
        self.oracle.merge(&r.oracle);
        *self.by_policy.entry(r.policy.clone()).or_insert(0) += 1;
        *self.by_tasks.entry(format!("{:02}", r.n_tasks)).or_insert(0) += 1;
        *self.by_class.entry(ep.class.clone()).or_insert(0) += 1;
        for p in &ep.patterns {
            self.oracle.probe(&format!("pattern:{p}"));
        }
        if self.samples.len() < 2 && r.sched.switches_inside_op > 0 && ep.n_ops() <= 24 && ep.inputs.iter().all(|i| i.len() < 80) {
            self.samples.push(json!({
                "episode": ep,
                "decisions_taken": r.decisions.iter().take(120).collect::<Vec<_>>(),
                "points": r.sched.points,
                "switches": r.sched.switches,
                "crashes_injected": r.sched.crashes,
                "comparisons": r.oracle.comparisons,
            }));
        }
    }
    pub fn merge(&mut self, o: &WorkerStats) {
        self.episodes += o.episodes;
        self.ops += o.ops;
        self.sched.merge(&o.sched);
        self.oracle.merge(&o.oracle);
        for (k, v) in &o.by_policy {
            *self.by_policy.entry(k.clone()).or_insert(0) += v;
        }
        for (k, v) in &o.by_tasks {
            *self.by_tasks.entry(k.clone()).or_insert(0) += v;
        }
        for (k, v) in &o.by_class {
            *self.by_class.entry(k.clone()).or_insert(0) += v;
        }
        for s in &o.samples {
            if self.samples.len() < 3 {
                self.samples.push(s.clone());
            }
        }
        self.stopped_by_time_cap |= o.stopped_by_time_cap;
        self.process_starts += o.process_starts;
    }
}

/// `fqsim c14-worker --seed S --start A --stride W --count N --pristine FILE`
pub fn worker_main(args: &[String]) -> i32 {
    crate::quiet_panics();
    let seed = arg_u64(args, "--seed", report::DEFAULT_SEED);
    let start = arg_u64(args, "--start", 0);
    let stride = arg_u64(args, "--stride", 1).max(1);
    let count = arg_u64(args, "--count", 0);
    let max_secs = arg_u64(args, "--max-secs", 3600);
    let pristine = match arg_value(args, "--pristine") {
        Some(p) => match load_pristine(p) {
            Ok(p) => p,
            Err(e) => {
                eprintln!("harness error: {}", e);
                return 2;
            }
        },
        None => Pristine::default(),
    };
    // A worker's share of the episodes is cut into *segments*, each run by a fresh process image
    // (the worker re-executes itself): state a tree under test keeps per process - lazily filled
    // tables, caches, started helper threads - is cold at the start of every segment. Segment
    // lengths are a seeded mix of very short (cold starts are where initialisation races live)
    // and long (so that effects of a long history are still reached).
    let seg = arg_u64(args, "--seg", 0);
    let now_unix = || std::time::SystemTime::now().duration_since(std::time::UNIX_EPOCH).map(|d| d.as_secs()).unwrap_or(0);
    let deadline = arg_u64(args, "--deadline", now_unix() + max_secs);
    let seg_len = {
        let mut r = crate::rng::Rng::new(crate::rng::mix(seed ^ 0x5E6_5E6, start.wrapping_mul(1_000_003).wrapping_add(seg)));
        // a very long segment only where the budget allows one (thorough tier): histories of
        // tens of thousands of builds in one process (counters that wrap, caches that fill up)
        let long = if count >= 3000 { 2 } else { 0 };
        [1u64, 2, 4, 10, 30, 100, 300, 3000][r.weighted(&[30, 20, 15, 10, 10, 10, 5, long])]
    };
    let this_count = if std::env::var_os("FQSIM_NO_SEGMENTS").is_some() { count } else { count.min(seg_len) };
    let mut ws = WorkerStats::default();
    let mut found: BTreeMap<String, u32> = BTreeMap::new();
    use std::io::Write;
    let out = std::io::stdout();
    let mut out = out; // not locked: simulated callers may print to stdout themselves (`QRCode::print`)
    let mut done = 0u64;
    for j in 0..this_count {
        if j % 32 == 0 && now_unix() >= deadline {
            ws.stopped_by_time_cap = true;
            break;
        }
        let idx = start + j * stride;
        let ep = gen_episode(seed, idx);
        let r = run_episode(&ep, &pristine);
        if r.hung {
            // the stuck task threads cannot be recovered: hand over what we have and end this process
            let _ = writeln!(out, "\n{{\"hang\":{}}}", idx);
            let _ = writeln!(out, "\n{}", json!({"stats": ws}));
            let _ = out.flush();
            std::process::exit(3);
        }
        let nontrivial = r.sched.switches_inside_op > 0 || r.sched.crashes > 0;
        let _ = writeln!(
            out,
            "\n{{\"ep\":{},\"t\":\"{:016x}\",\"o\":\"{:016x}\",\"nt\":{}}}",
            idx, r.trace_hash, r.outcome_hash, nontrivial
        );
        ws.add(&ep, &r);
        done += 1;
        if let Some(v) = &r.violation {
            let n = found.entry(v.class()).or_insert(0);
            if *n < 3 {
                let variant = if cfg!(feature = "facade") { "facade" } else { "plain" };
                // worker_start = first episode of this process image: the prefix a replay may need
                let _ = writeln!(out, "\n{}", json!({"found": {"violation": v, "episode": ep, "worker_start": start, "worker_stride": stride, "variant": variant}}));
            }
            *n += 1;
        }
    }
    ws.process_starts += 1;
    let _ = writeln!(out, "\n{}", json!({"stats": ws}));
    let _ = out.flush();
    crate::spec::remove_logo_dir();
    let left = count - done.min(count);
    if left > 0 && !ws.stopped_by_time_cap && done == this_count {
        // next segment: replace this process image
        use std::os::unix::process::CommandExt;
        let exe = match std::env::current_exe() {
            Ok(e) => e,
            Err(_) => return 2,
        };
        let mut cmd = std::process::Command::new(exe);
        cmd.arg("c14-worker")
            .args(["--seed", &seed.to_string()])
            .args(["--start", &(start + done * stride).to_string()])
            .args(["--stride", &stride.to_string()])
            .args(["--count", &left.to_string()])
            .args(["--max-secs", &max_secs.to_string()])
            .args(["--seg", &(seg + 1).to_string()])
            .args(["--deadline", &deadline.to_string()]);
        if let Some(p) = arg_value(args, "--pristine") {
            cmd.args(["--pristine", p]);
        }
        let e = cmd.exec();
        eprintln!("harness error: re-exec of the worker failed: {}", e);
        return 2;
    }
    0
}

/// `fqsim c14-exec <file> [--pristine FILE]`: runs the episode list of a replay file in this fresh process.
pub fn exec_main(args: &[String]) -> i32 {
    crate::quiet_panics();
    let Some(path) = args.first() else {
        eprintln!("usage: fqsim c14-exec <file> [--pristine FILE]");
        return 2;
    };
    let text = match std::fs::read_to_string(path) {
        Ok(t) => t,
        Err(e) => {
            eprintln!("harness error: cannot read {}: {}", path, e);
            return 2;
        }
    };
    let v: Value = match serde_json::from_str(&text) {
        Ok(v) => v,
        Err(e) => {
            eprintln!("harness error: {}", e);
            return 2;
        }
    };
    let episodes: Vec<Episode> = match serde_json::from_value(v["episodes"].clone()) {
        Ok(e) => e,
        Err(e) => {
            eprintln!("harness error: no episode list in {}: {}", path, e);
            return 2;
        }
    };
    let pristine = match arg_value(args, "--pristine") {
        Some(p) => load_pristine(p),
        None => compute_pristine(16),
    };
    let pristine = match pristine {
        Ok(p) => p,
        Err(e) => {
            eprintln!("harness error: {}", e);
            return 2;
        }
    };
    let mut results = Vec::new();
    let mut viol: Option<(usize, Violation)> = None;
    for (i, ep) in episodes.iter().enumerate() {
        let r = run_episode(ep, &pristine);
        if r.hung {
            println!("\n{}", json!({"violation": null, "hang": ep.index, "results": results}));
            std::process::exit(3);
        }
        if let Some(vv) = &r.violation {
            viol = Some((i, vv.clone()));
        }
        results.push(json!({"index": r.index, "trace": format!("{:016x}", r.trace_hash), "outcome": format!("{:016x}", r.outcome_hash), "decisions": r.decisions}));
        if viol.is_some() {
            break;
        }
    }
    crate::spec::remove_logo_dir();
    println!(
        "{}",
        json!({"violation": viol.as_ref().map(|(_, v)| v), "episode_pos": viol.as_ref().map(|(i, _)| i), "results": results})
    );
    if viol.is_some() {
        1
    } else {
        0
    }
}

// ---------------------------------------------------------------------------
// Driver
// ---------------------------------------------------------------------------

pub struct ExecOut {
    pub violation: Option<Violation>,
    pub decisions: Vec<Vec<u8>>,
}

/// Runs an episode list in a fresh process.
pub fn exec_fresh(episodes: &[Episode], pristine_path: &str) -> Result<ExecOut, String> {
    exec_fresh_variant(episodes, pristine_path, &current_variant())
}

thread_local! {
    static VARIANT: std::cell::RefCell<Option<String>> = const { std::cell::RefCell::new(None) };
}

/// The binary variant used for confirmation/minimisation of the violation at hand.
pub fn set_current_variant(v: &str) {
    VARIANT.with(|c| *c.borrow_mut() = Some(v.to_string()));
}
pub fn current_variant() -> String {
    VARIANT.with(|c| c.borrow().clone()).unwrap_or_else(|| pool::variants()[0].0.clone())
}

pub fn exec_fresh_variant(episodes: &[Episode], pristine_path: &str, variant: &str) -> Result<ExecOut, String> {
    let dir = report::make_scratch("c14x");
    let f = dir.join("cand.json");
    std::fs::write(&f, serde_json::to_string(&json!({"episodes": episodes})).unwrap()).map_err(|e| e.to_string())?;
    let argv = vec![
        "c14-exec".to_string(),
        f.to_str().unwrap().to_string(),
        "--pristine".into(),
        pristine_path.to_string(),
    ];
    let outs = pool::run_children_exes(&[pool::variant_exe(variant)], &[argv], 1);
    let _ = std::fs::remove_dir_all(&dir);
    let o = &outs[0];
    match o.code {
        Some(0) | Some(1) => {
            let line = o.lines.iter().rev().find(|l| l.starts_with('{')).ok_or("no output from exec")?;
            let v: Value = serde_json::from_str(line).map_err(|e| e.to_string())?;
            let violation = if v["violation"].is_null() { None } else { serde_json::from_value(v["violation"].clone()).ok() };
            let decisions = v["results"]
                .as_array()
                .map(|a| a.iter().map(|r| serde_json::from_value(r["decisions"].clone()).unwrap_or_default()).collect())
                .unwrap_or_default();
            Ok(ExecOut { violation, decisions })
        }
        other => Err(format!("exec process failed: code={:?} signal={:?} stderr={}", other, o.signal, o.stderr)),
    }
}

pub fn budget(tier: Tier) -> (u64, u64) {
    let scale = std::env::var("VERIF_SCALE").ok().and_then(|s| s.parse::<f64>().ok()).unwrap_or(1.0);
    match tier {
        Tier::Quick => ((20_000.0 * scale) as u64, 150),
        Tier::Thorough => ((600_000.0 * scale) as u64, 2400),
    }
}

pub fn check_main(tier: Tier) -> i32 {
    let t0 = Instant::now();
    let seed = report::verif_seed();
    let w = report::workers();
    let (episodes, max_secs) = budget(tier);
    println!("C14 {} VERIF_SEED={} workers={} episodes={}", tier.name(), seed, w, episodes);

    let scratch = report::make_scratch("c14d");
    let cleanup = |code: i32| -> i32 {
        let _ = std::fs::remove_dir_all(&scratch);
        code
    };
    let pristine = match compute_pristine(w) {
        Ok(p) => p,
        Err(e) => {
            eprintln!("harness error: {}", e);
            return cleanup(2);
        }
    };
    let pristine_path = scratch.join("pristine.json");
    std::fs::write(&pristine_path, serde_json::to_string(&pristine).unwrap()).expect("write pristine");
    let pristine_path = pristine_path.to_str().unwrap().to_string();

    let per = (episodes + w as u64 - 1) / w as u64;
    let variants = pool::variants();
    println!("C14 harness variants: {:?}", variants.iter().map(|(n, _)| n.as_str()).collect::<Vec<_>>());
    // worker i runs episodes i, i+w, i+2w, ... with binary variant i mod #variants. A worker whose
    // episode hangs (a real blocking primitive under the baton) ends with code 3 and is restarted
    // after the hung episode; hangs are recorded, never reported as violations.
    let mut pending: Vec<(usize, u64, u64)> = (0..w).map(|i| (i, i as u64, per)).collect();
    let mut outs: Vec<(usize, pool::WorkerOut)> = Vec::new();
    let mut hung_episodes: Vec<u64> = Vec::new();
    for _round in 0..10 {
        if pending.is_empty() || hung_episodes.len() > 64 {
            break;
        }
        let argvs: Vec<Vec<String>> = pending
            .iter()
            .map(|(_, start, count)| {
                vec![
                    "c14-worker".to_string(),
                    "--seed".into(),
                    seed.to_string(),
                    "--start".into(),
                    start.to_string(),
                    "--stride".into(),
                    w.to_string(),
                    "--count".into(),
                    count.to_string(),
                    "--pristine".into(),
                    pristine_path.clone(),
                    "--max-secs".into(),
                    max_secs.to_string(),
                ]
            })
            .collect();
        let exes: Vec<std::path::PathBuf> = pending.iter().map(|(i, _, _)| variants[i % variants.len()].1.clone()).collect();
        let round_outs = pool::run_children_exes(&exes, &argvs, w);
        let mut next: Vec<(usize, u64, u64)> = Vec::new();
        for ((i, start, count), o) in pending.iter().zip(round_outs.into_iter()) {
            if o.code == Some(3) {
                if let Some(h) = o.lines.iter().find(|l| l.starts_with("{\"hang\"")).and_then(|l| serde_json::from_str::<Value>(l).ok()).and_then(|v| v["hang"].as_u64()) {
                    hung_episodes.push(h);
                    let done = (h - start) / w as u64 + 1;
                    if count - done > 0 {
                        next.push((*i, h + w as u64, count - done));
                    }
                }
            }
            outs.push((*i, o));
        }
        pending = next;
    }
    let outs: Vec<pool::WorkerOut> = outs
        .into_iter()
        .map(|(_, mut o)| {
            if o.code == Some(3) {
                o.code = Some(0);
            }
            o
        })
        .collect();

    let mut ws = WorkerStats::default();
    let mut found: Vec<Value> = Vec::new();
    let mut traces: BTreeSet<u64> = BTreeSet::new();
    let mut nontrivial_traces: BTreeSet<u64> = BTreeSet::new();
    let mut combined: u64 = 0;
    for (i, o) in outs.iter().enumerate() {
        if o.code != Some(0) {
            eprintln!(
                "harness error: C14 worker {} ended abnormally (code={:?} signal={:?}); stderr:\n{}",
                i, o.code, o.signal, o.stderr
            );
            return cleanup(2);
        }
        let mut got = false;
        for l in &o.lines {
            if l.starts_with("{\"ep\"") {
                if let Ok(v) = serde_json::from_str::<Value>(l) {
                    let t = u64::from_str_radix(v["t"].as_str().unwrap_or("0"), 16).unwrap_or(0);
                    let oh = u64::from_str_radix(v["o"].as_str().unwrap_or("0"), 16).unwrap_or(0);
                    traces.insert(t);
                    if v["nt"].as_bool().unwrap_or(false) {
                        nontrivial_traces.insert(t);
                    }
                    combined ^= crate::rng::mix(v["ep"].as_u64().unwrap_or(0), t ^ oh.rotate_left(21));
                }
            } else if l.starts_with("{\"found\"") {
                if let Ok(v) = serde_json::from_str::<Value>(l) {
                    found.push(v["found"].clone());
                }
            } else if l.starts_with("{\"stats\"") {
                if let Ok(v) = serde_json::from_str::<Value>(l) {
                    if let Ok(s) = serde_json::from_value::<WorkerStats>(v["stats"].clone()) {
                        ws.merge(&s);
                        got = true;
                    }
                }
            }
        }
        if !got {
            eprintln!("harness error: C14 worker {} produced no stats; stderr:\n{}", i, o.stderr);
            return cleanup(2);
        }
    }

    // --- optional Miri leg (thorough tier) ------------------------------------
    let mut miri: Value = json!({"ran": false, "reason": "quick tier"});
    let mut miri_violation: Option<(String, String)> = None;
    if tier == Tier::Thorough && std::env::var("VERIF_NO_MIRI").is_err() {
        let (v, viol) = crate::c14::miri_leg(seed);
        miri = v;
        miri_violation = viol;
    }

    // --- deep-counter leg (thorough tier): 2^32 setter calls ------------------------
    // "regardless of how many times the option setters were called": a 32-bit revision or call
    // counter wraps only after 4 294 967 296 calls, which no random history contains. Three fixed
    // episodes (QR builder, SVG renderer, image renderer) call one scalar setter exactly 2^32
    // times between two uses of the object and compare with a fresh object holding the final
    // values. They go through the same fresh-process execution as a replay.
    let mut deep = json!({"ran": false, "reason": "quick tier"});
    if tier == Tier::Thorough && std::env::var("VERIF_NO_DEEP").is_err() {
        let td = Instant::now();
        let eps = deep_counter_episodes(seed);
        let mut hits = 0;
        for ep in &eps {
            match exec_fresh(&[ep.clone()], &pristine_path) {
                Ok(ExecOut { violation: Some(v), .. }) => {
                    hits += 1;
                    found.push(json!({"violation": v, "episode": ep, "worker_start": ep.index, "worker_stride": 1, "variant": "plain"}));
                }
                Ok(_) => {}
                Err(e) => {
                    eprintln!("harness error: deep-counter episode failed to run: {}", e);
                    return cleanup(2);
                }
            }
        }
        deep = json!({"ran": true, "episodes": eps.len(), "setter_calls_each": 1u64 << 32, "violations": hits, "wall_s": td.elapsed().as_secs_f64()});
    }

    // --- violations -----------------------------------------------------------
    let known = KnownFindings::load();
    let mut new_violations = 0u64;
    let mut known_hits: BTreeMap<String, u64> = BTreeMap::new();
    let mut attempted = 0u64;
    let mut reproduced = 0u64;
    let mut reported: BTreeSet<String> = BTreeSet::new();
    found.sort_by_key(|f| f["episode"]["index"].as_u64().unwrap_or(0));
    for f in &found {
        let Ok(v) = serde_json::from_value::<Violation>(f["violation"].clone()) else { continue };
        let Ok(ep) = serde_json::from_value::<Episode>(f["episode"].clone()) else { continue };
        if let Some(k) = known.matches("C14", &v.class(), &v.detail) {
            *known_hits.entry(k.what.clone()).or_insert(0) += 1;
            continue;
        }
        if reported.contains(&v.class()) {
            continue;
        }
        attempted += 1;
        let variant = f["variant"].as_str().unwrap_or("plain").to_string();
        set_current_variant(&variant);
        // 1. alone in a fresh process
        let mut episodes_list = vec![ep.clone()];
        let mut confirmed = matches!(exec_fresh(&episodes_list, &pristine_path), Ok(ExecOut { violation: Some(ref c), .. }) if c.class() == v.class());
        let mut note = String::new();
        if !confirmed {
            // 2. it may depend on state left behind by earlier episodes of the same worker process
            let wstart = f["worker_start"].as_u64().unwrap_or(0);
            let wstride = f["worker_stride"].as_u64().unwrap_or(1).max(1);
            let mut prefix: Vec<Episode> = Vec::new();
            let mut idx = wstart;
            while idx <= ep.index {
                prefix.push(gen_episode(seed, idx));
                idx += wstride;
            }
            let mut k = 2usize;
            loop {
                let from = prefix.len().saturating_sub(k);
                let cand = prefix[from..].to_vec();
                if matches!(exec_fresh(&cand, &pristine_path), Ok(ExecOut { violation: Some(ref c), .. }) if c.class() == v.class()) {
                    episodes_list = cand;
                    confirmed = true;
                    note = format!("depends on earlier episodes in the same process: needs the last {} of the worker's prefix", k.min(prefix.len()));
                    break;
                }
                if from == 0 || k >= 256 {
                    break;
                }
                k *= 2;
            }
        }
        if confirmed {
            reproduced += 1;
        }
        let (min_eps, min_v, info) = if confirmed {
            super::shrink::minimise(&episodes_list, &v, &pristine_path)
        } else {
            (
                episodes_list.clone(),
                v.clone(),
                json!({"note": "nondeterministic: not reproduced in a fresh process (0 of 1 + prefix attempts); reported unminimised"}),
            )
        };
        // determinism of the final replay: three fresh runs, same class and same schedule
        let mut same = 0;
        let mut decisions: Vec<Vec<u8>> = Vec::new();
        if confirmed {
            for _ in 0..3 {
                if let Ok(o) = exec_fresh(&min_eps, &pristine_path) {
                    if o.violation.as_ref().map(|c| c.class()) == Some(min_v.class()) {
                        if decisions.is_empty() || decisions == o.decisions {
                            same += 1;
                        }
                        decisions = o.decisions;
                    }
                }
            }
        }
        let replay = json!({
            "property": "C14",
            "engine": "fqsim-c14",
            "variant": variant,
            "verif_seed": seed,
            "run_index": ep.index,
            "episodes": min_eps,
            "violation": min_v,
            "schedule_taken": decisions,
            "minimised": info,
            "note": note,
            "reproduced_in_fresh_process": confirmed,
            "replays_identical": format!("{} of 3", same),
            "replay_cmd": "./check C14 --replay <this file>",
        });
        let name = format!("{}-ep{}", v.class().replace(':', "-"), ep.index);
        let path = match report::write_replay("C14", &name, &replay) {
            Ok(p) => p,
            Err(e) => {
                eprintln!("harness error: cannot write replay: {}", e);
                return cleanup(2);
            }
        };
        println!("violation: {} — {}", min_v.invariant, min_v.detail);
        println!("VIOLATION property=C14 replay={}", path.display());
        reported.insert(v.class());
        new_violations += 1;
    }
    if let Some((detail, path)) = &miri_violation {
        if let Some(k) = known.matches("C14", "MIRI", detail) {
            *known_hits.entry(k.what.clone()).or_insert(0) += 1;
        } else {
            println!("violation: Miri leg — {}", detail.lines().next().unwrap_or(""));
            println!("VIOLATION property=C14 replay={}", path);
            new_violations += 1;
        }
    }
    for (what, n) in &known_hits {
        println!("KNOWN-FINDING: property=C14 {} (seen {}x)", what, n);
    }

    // --- reach self-check ------------------------------------------------------
    let mut stuck: Vec<String> = Vec::new();
    for site in EXPECTED_SITES {
        let hits = ws.sched.sites.get(*site).copied().unwrap_or([0; 3]);
        if hits[0] == 0 {
            stuck.push(format!("site never reached: {}", site));
        } else if hits[1] == 0 {
            stuck.push(format!("never switched at: {}", site));
        } else if hits[2] == 0 && !site.starts_with("op:") && super::egen::inject_crashes() {
            stuck.push(format!("never crashed at: {}", site));
        }
    }
    for p in [
        "same_state_seen_on_two_tasks",
        "same_state_before_and_after_fault",
        "shared_builder_concurrent_builds_overlapped",
        "setter_overwritten",
        "err_encoded_data",
        "err_specified_version",
        "crate_panic_outcome(alphabet)",
        "v40_built",
    ] {
        if ws.oracle.probes.get(p).copied().unwrap_or(0) == 0 {
            stuck.push(format!("probe never hit: {}", p));
        }
    }
    if ws.oracle.anchor_comparisons == 0 || ws.oracle.render_anchor_comparisons == 0 {
        stuck.push("no pristine anchor comparison happened".into());
    }
    if ws.sched.points == 0 || ws.oracle.comparisons == 0 {
        eprintln!("harness error: no hook point was reached or no comparison was made: the verif-hooks seam is not active");
        return cleanup(2);
    }
    if !stuck.is_empty() {
        eprintln!("note: reach gaps in this run (recorded in the evidence file): {:?}", stuck);
    }

    let wall = t0.elapsed().as_secs_f64();
    let coverage = json!({
        "evaluations": ws.episodes,
        "distinct_nontrivial": nontrivial_traces.len(),
        "rule": "one evaluation = one simulated episode (1..16 caller threads x 3..12 public-API operations each, one seeded schedule, optional injected faults) run against the real crate; distinct = distinct hashes of the full (task, hook site, decision) sequence; non-trivial = at least one context switch inside a build/render operation or at least one injected fault",
        "samples": ws.samples,
        "episodes": ws.episodes,
        "episodes_per_hour": (ws.episodes as f64 / wall * 3600.0) as u64,
        "operations": ws.ops,
        "seeds": {"verif_seed": seed, "episode_indices": [0, per * w as u64 - 1]},
        "simulated_time": format!("{} clock readings, {:.1} simulated hours (the crate reads no clock on the unchanged tree, so both are 0 there; the facade variant puts std::time on a seeded, jumping clock); progress is otherwise counted in scheduler decisions", ws.sched.clock_reads, ws.sched.simulated_ns as f64 / 3.6e12),
        "scheduler": {"hook_points": ws.sched.points, "decisions": ws.sched.decisions, "context_switches": ws.sched.switches, "switches_inside_an_operation": ws.sched.switches_inside_op},
        "distinct_interleavings_all": traces.len(),
        "faults_fired": {
            "injected_unwinding_at_verif_points (off unless FQSIM_INJECT_CRASH: it models nothing that can happen to this crate, DESIGN 12.5)": ws.sched.crashes,
            "callback_panic (renders left early by a failing user callback)": ws.oracle.outcomes.get("Died").copied().unwrap_or(0),
            "renderer_or_alphabet_panic_as_outcome": ws.oracle.outcomes.get("Panic").copied().unwrap_or(0),
            "alphabet_panic (crate's own panic as outcome)": ws.oracle.probes.get("crate_panic_outcome(alphabet)").copied().unwrap_or(0),
            "err_result_encoded_data": ws.oracle.probes.get("err_encoded_data").copied().unwrap_or(0),
            "err_result_specified_version": ws.oracle.probes.get("err_specified_version").copied().unwrap_or(0),
            "starved_task_episodes": ws.by_policy.get("starve").copied().unwrap_or(0),
            "reissued_after_fault": ws.oracle.reissued_after_fault,
        },
        "sites": ws.sched.sites.iter().map(|(k, v)| (k.clone(), json!({"hit": v[0], "switched_here": v[1], "crashed_here": v[2]}))).collect::<BTreeMap<_, _>>(),
        "oracle": {
            "distinct_model_states": ws.oracle.distinct_states,
            "same_state_comparisons(I1)": ws.oracle.comparisons,
            "pristine_build_anchor_comparisons(I2)": ws.oracle.anchor_comparisons,
            "pristine_render_anchor_comparisons(I2)": ws.oracle.render_anchor_comparisons,
            "ondemand_pristine_comparisons(I2)": ws.oracle.ondemand_pristine_comparisons,
            "qr_unmodified_checks(I3)": ws.oracle.qr_unmodified_checks,
            "outcomes": ws.oracle.outcomes,
            "ops": ws.oracle.ops,
        },
        "probes": ws.oracle.probes,
        "reach_gaps": stuck,
        "episodes_by_policy": ws.by_policy,
        "episodes_by_task_count": ws.by_tasks,
        "episodes_by_class": ws.by_class,
        "pristine_anchors": {"builds": pristine.builds.len(), "renders": pristine.renders.len(), "how": "one fresh process per anchor, exactly one build each"},
        "replays": {"attempted": attempted, "reproduced": reproduced},
        "known_findings_seen": known_hits,
        "combined_run_hash": format!("{:016x}", combined),
        "miri_leg": miri,
        "deep_counter_leg": deep,
        "stopped_by_time_cap": ws.stopped_by_time_cap,
        "process_images": {"cold_starts": ws.process_starts, "note": "each worker re-executes itself between segments of 1..300 episodes, so per-process state of the tree under test starts cold that many times"},
        "harness_variants": variants.iter().map(|(n, _)| n.clone()).collect::<Vec<_>>(),
        "hung_episodes_skipped": hung_episodes,
        "crate_side_activity": {"threads_started_by_the_crate_and_simulated": ws.sched.spawned_threads, "environment_lookups_answered_by_the_simulator": ws.sched.env_reads, "clock_readings": ws.sched.clock_reads, "note": "all 0 on the unchanged tree: the crate starts no thread, reads no clock and no environment variable"},
        "sync_facade": {"sync_points": ws.sched.sync_points, "blocked_yields": ws.sched.blocked_yields, "note": "the facade variant is fast_qr compiled against /verif/facade (std/core re-exported, sync primitives and atomics are scheduling points); on a tree without shared state both counters are 0"},
        "real_vs_stub": {
            "real": ["fast_qr QRBuilder/QRCode/SvgBuilder/ImageBuilder/to_str through the public API", "resvg/usvg/tiny-skia/png", "real OS threads (one runnable at a time)"],
            "stub": ["nothing of the crate is stubbed; additions: the feature-gated verif_point! seam (a scheduling point) and, in the facade variant only, std::sync / atomics / Condvar / Barrier / mpsc / thread::spawn+scope+join / std::time / thread::sleep / std::env::var replaced by versions that ask the simulator who runs next, what time it is and what the environment says"]
        },
        "workers": w,
    });
    let ev = report::base_evidence(
        "C14",
        tier,
        seed,
        "exploration",
        coverage,
        vec![
            "interleavings are explored at the granularity of the verif_point! sites (stage boundaries) natively, and at basic-block granularity only in the thorough tier's Miri leg",
            "outcomes are compared only with outcomes of the same build of the crate; no expected value is baked in",
            "a render left early by a failing user callback is exempt from I1 (its outcome is Died); the re-issued render and everything after it are not",
        ],
        wall,
        new_violations,
    );
    if let Err(e) = report::write_evidence("C14", &ev) {
        eprintln!("harness error: cannot write evidence: {}", e);
        return cleanup(2);
    }
    println!(
        "C14 {}: {} episodes, {} ops, {} decisions, {} distinct non-trivial interleavings, {} I1/I2 comparisons, {} violations, {:.1}s",
        tier.name(),
        ws.episodes,
        ws.ops,
        ws.sched.decisions,
        nontrivial_traces.len(),
        ws.oracle.comparisons,
        new_violations,
        wall
    );
    if new_violations == 0 && !hung_episodes.is_empty() && ws.episodes * 2 < episodes {
        // most of the planned episodes could not run (they hang: the tree under test blocks in
        // the kernel while a simulated caller holds the baton). That is not a verdict either way.
        eprintln!(
            "harness error: only {} of {} planned episodes ran ({} hung and were skipped); no verdict",
            ws.episodes,
            episodes,
            hung_episodes.len()
        );
        return cleanup(2);
    }
    cleanup(if new_violations > 0 { 1 } else { 0 })
}

/// See the deep-counter leg in `check_main`.
fn deep_counter_episodes(seed: u64) -> Vec<Episode> {
    use super::sched::{Policy, SchedSpec};
    use super::{Op, OpSpec, QrRef};
    let plain = |op: Op| OpSpec { op, crash_at: None, crash_site: None, cb_panic_at: None };
    let n: u64 = 1 << 32;
    let mk = |k: u64, ops: Vec<Op>| Episode {
        index: 3_000_000_000 + k,
        seed: crate::rng::mix(seed, 3_000_000_000 + k),
        class: "deep_counter".into(),
        sched: SchedSpec { policy: Policy::Sequential, seed: 1 },
        inputs: vec![b"https://example.com/deep".to_vec()],
        shared_builders: vec![],
        shared_qrs: vec![],
        tasks: vec![ops.into_iter().map(plain).collect()],
        patterns: vec![],
    };
    let fresh_qr = Op::BuildFresh { input: 0, mode: None, ecl: Some(1), version: None, mask: None, out: 0 };
    vec![
        // QR builder: mask set 2^32 times; final value (2^32-1) % 8 = 7
        mk(
            0,
            vec![
                Op::NewBuilder { slot: 0, input: 0 },
                Op::Set { slot: 0, s: BSetter::Mask(2) },
                Op::Build { slot: 0, out: 0 },
                Op::SetBurst { what: 0, slot: 0, n },
                Op::Build { slot: 0, out: 1 },
                Op::BuildFresh { input: 0, mode: None, ecl: None, version: None, mask: Some(7), out: 2 },
            ],
        ),
        // SVG renderer: margin set 2^32 times; final value (2^32-1) % 5 = 0
        mk(
            1,
            vec![
                fresh_qr.clone(),
                Op::NewSvg { slot: 0 },
                Op::SvgSet { slot: 0, s: RSetter::Margin(2) },
                Op::SvgRender { slot: 0, qr: QrRef::Local(0) },
                Op::SetBurst { what: 1, slot: 0, n },
                Op::SvgRender { slot: 0, qr: QrRef::Local(0) },
                Op::NewSvg { slot: 1 },
                Op::SvgSet { slot: 1, s: RSetter::Margin(0) },
                Op::SvgRender { slot: 1, qr: QrRef::Local(0) },
            ],
        ),
        // image renderer, PNG bytes and pixmap
        mk(
            2,
            vec![
                fresh_qr,
                Op::NewImg { slot: 0 },
                Op::ImgSet { slot: 0, s: RSetter::Margin(2) },
                Op::ImgRender { slot: 0, qr: QrRef::Local(0), pixmap: false },
                Op::ImgRender { slot: 0, qr: QrRef::Local(0), pixmap: true },
                Op::SetBurst { what: 2, slot: 0, n },
                Op::ImgRender { slot: 0, qr: QrRef::Local(0), pixmap: false },
                Op::ImgRender { slot: 0, qr: QrRef::Local(0), pixmap: true },
                Op::NewImg { slot: 1 },
                Op::ImgSet { slot: 1, s: RSetter::Margin(0) },
                Op::ImgRender { slot: 1, qr: QrRef::Local(0), pixmap: false },
                Op::ImgRender { slot: 1, qr: QrRef::Local(0), pixmap: true },
            ],
        ),
    ]
}

pub const EXPECTED_SITES: &[&str] = &[
    "op:boundary",
    "new:mode_chosen",
    "new:version_chosen",
    "new:matrix_created",
    "create:encoded",
    "create:structured",
    "create:binstring",
    "encode:allocated",
    "encode:segment",
    "encode:terminated",
    "encode:padded8",
    "encode:filled",
    "structure:generator",
    "structure:g1_divided",
    "structure:g2_divided",
    "structure:ecc_done",
    "structure:interleaved",
    "blank:finder",
    "blank:timing",
    "blank:alignment",
    "blank:version_info",
    "blank:separators",
    "place:blank",
    "place:data_placed",
    "place:transposed",
    "place:mask_iter",
    "place:mask_applied",
    "place:scored",
    "place:mask_selected",
    "place:format_info",
    "place:final_mask",
    "score:dark",
    "score:squares",
    "score:lines",
    "svg:header",
    "svg:path_row",
    "svg:path_close",
    "svg:path",
    "svg:image",
    "term:header",
    "term:row_pair",
    "img:svg_text",
    "img:parsed",
    "img:pixmap_allocated",
    "img:rendered",
];

/// `./check C14 --replay <file>`
pub fn replay_main(path: &str) -> i32 {
    let text = match std::fs::read_to_string(path) {
        Ok(t) => t,
        Err(e) => {
            eprintln!("harness error: cannot read {}: {}", path, e);
            return 2;
        }
    };
    let v: Value = match serde_json::from_str(&text) {
        Ok(v) => v,
        Err(e) => {
            eprintln!("harness error: {}", e);
            return 2;
        }
    };
    if v["engine"] == "miri-c14" {
        return super::miri_replay(&v, path);
    }
    let episodes: Vec<Episode> = match serde_json::from_value(v["episodes"].clone()) {
        Ok(e) => e,
        Err(e) => {
            eprintln!("harness error: {}", e);
            return 2;
        }
    };
    let recorded: Option<Violation> = serde_json::from_value(v["violation"].clone()).ok();
    let recorded_sched: Vec<Vec<u8>> = serde_json::from_value(v["schedule_taken"].clone()).unwrap_or_default();
    let scratch = report::make_scratch("c14r");
    let pristine = match compute_pristine(report::workers()) {
        Ok(p) => p,
        Err(e) => {
            eprintln!("harness error: {}", e);
            let _ = std::fs::remove_dir_all(&scratch);
            return 2;
        }
    };
    let pp = scratch.join("pristine.json");
    std::fs::write(&pp, serde_json::to_string(&pristine).unwrap()).expect("write pristine");
    if let Some(vn) = v["variant"].as_str() {
        set_current_variant(vn);
    }
    let r = exec_fresh(&episodes, pp.to_str().unwrap());
    let _ = std::fs::remove_dir_all(&scratch);
    match r {
        Ok(ExecOut { violation: Some(got), decisions }) => {
            println!("replayed: {} — {}", got.invariant, got.detail);
            if let Some(r) = &recorded {
                println!("same class as recorded: {}", r.class() == got.class());
                println!("identical detail: {}", r.detail == got.detail);
            }
            if !recorded_sched.is_empty() {
                println!("schedule identical to the recorded one: {}", recorded_sched == decisions);
            }
            println!("VIOLATION property=C14 replay={}", path);
            1
        }
        Ok(ExecOut { violation: None, .. }) => {
            println!("replay did not produce a violation on this tree");
            0
        }
        Err(e) => {
            eprintln!("harness error: {}", e);
            2
        }
    }
}
