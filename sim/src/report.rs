//! Evidence files, replay files, known findings, and the run environment.

use std::path::{Path, PathBuf};

use serde::{Deserialize, Serialize};
use serde_json::{json, Value};

pub const DEFAULT_SEED: u64 = 20260928;
/// Root of the verification tree (normally /verif; a snapshot when started by `vp run`).
pub fn verif_dir() -> String {
    std::env::var("VERIF_ROOT").unwrap_or_else(|_| "/verif".to_string())
}

pub fn verif_seed() -> u64 {
    match std::env::var("VERIF_SEED") {
        Ok(s) => s.trim().parse::<u64>().unwrap_or_else(|_| {
            // accept negative / huge values by hashing the text
            let d = crate::rng::digest128(&[s.as_bytes()]);
            d[0]
        }),
        Err(_) => DEFAULT_SEED,
    }
}

#[derive(Clone, Copy, PartialEq, Eq, Debug)]
pub enum Tier {
    Quick,
    Thorough,
}

impl Tier {
    pub fn name(self) -> &'static str {
        match self {
            Tier::Quick => "quick",
            Tier::Thorough => "thorough",
        }
    }
    pub fn parse(s: &str) -> Option<Tier> {
        match s {
            "quick" => Some(Tier::Quick),
            "thorough" => Some(Tier::Thorough),
            _ => None,
        }
    }
}

pub fn workers() -> usize {
    std::env::var("VERIF_WORKERS")
        .ok()
        .and_then(|s| s.parse().ok())
        .unwrap_or_else(|| std::thread::available_parallelism().map(|n| n.get()).unwrap_or(8))
        .clamp(1, 64)
}

/// A private scratch directory for this process tree, in memory when possible.
pub fn make_scratch(tag: &str) -> PathBuf {
    let pid = std::process::id();
    for base in ["/dev/shm".to_string(), format!("{}/target/scratch", verif_dir())] {
        let p = PathBuf::from(base).join(format!("fqv-{}-{}", tag, pid));
        if std::fs::create_dir_all(&p).is_ok() {
            return p;
        }
    }
    panic!("no scratch directory available");
}

pub fn write_evidence(id: &str, v: &Value) -> Result<PathBuf, String> {
    let dir = Path::new(&verif_dir()).join("evidence");
    std::fs::create_dir_all(&dir).map_err(|e| e.to_string())?;
    let p = dir.join(format!("{}.json", id));
    let tmp = dir.join(format!(".{}.json.tmp", id));
    let s = serde_json::to_string_pretty(v).map_err(|e| e.to_string())?;
    std::fs::write(&tmp, s + "\n").map_err(|e| e.to_string())?;
    std::fs::rename(&tmp, &p).map_err(|e| e.to_string())?;
    Ok(p)
}

pub fn write_replay(id: &str, name: &str, v: &Value) -> Result<PathBuf, String> {
    let dir = Path::new(&verif_dir()).join("replays");
    std::fs::create_dir_all(&dir).map_err(|e| e.to_string())?;
    let p = dir.join(format!("{}-{}.json", id, name));
    let s = serde_json::to_string_pretty(v).map_err(|e| e.to_string())?;
    std::fs::write(&p, s + "\n").map_err(|e| e.to_string())?;
    Ok(p)
}

// ---------------------------------------------------------------------------
// Known findings (committed file; never written at run time)
// ---------------------------------------------------------------------------

#[derive(Clone, Debug, Serialize, Deserialize)]
pub struct Finding {
    pub property: String,
    /// violation class, e.g. "O2_ok_but_file_wrong:Png" or "I1:Build"
    pub class: String,
    /// every listed substring must occur in the violation's detail text
    #[serde(default)]
    pub detail_contains: Vec<String>,
    pub what: String,
}

#[derive(Clone, Debug, Serialize, Deserialize, Default)]
pub struct KnownFindings {
    #[serde(default)]
    pub findings: Vec<Finding>,
    /// "fixed: property=<id> <commit> <what failed>" — documentation only, suppresses nothing
    #[serde(default)]
    pub fixed: Vec<String>,
}

impl KnownFindings {
    pub fn load() -> KnownFindings {
        let p = Path::new(&verif_dir()).join("known_findings.json");
        match std::fs::read_to_string(&p) {
            Ok(s) => serde_json::from_str(&s).unwrap_or_else(|e| {
                eprintln!("harness error: {} does not parse: {}", p.display(), e);
                std::process::exit(2);
            }),
            Err(_) => KnownFindings::default(),
        }
    }

    pub fn matches(&self, property: &str, class: &str, detail: &str) -> Option<&Finding> {
        self.findings
            .iter()
            .find(|f| f.property == property && f.class == class && f.detail_contains.iter().all(|s| detail.contains(s.as_str())))
    }
}

pub fn base_evidence(id: &str, tier: Tier, seed: u64, level: &str, coverage: Value, assumptions: Vec<&str>, wall_s: f64, violations: u64) -> Value {
    json!({
        "property_id": id,
        "tier": tier.name(),
        "seed": seed,
        "level": level,
        "coverage": coverage,
        "assumptions": assumptions,
        "wall_s": (wall_s * 1000.0).round() / 1000.0,
        "violations": violations,
    })
}

/// Caps the writable memory of this (child) process so that a tree under test that allocates
/// without bound ends its own process quickly instead of exhausting the machine. RLIMIT_DATA
/// counts brk and private writable mappings (what actually gets used), not address space
/// reservations such as malloc arenas.
pub fn limit_memory() {
    let gb: u64 = std::env::var("FQSIM_MEM_GB").ok().and_then(|s| s.parse().ok()).unwrap_or(4);
    let lim = libc::rlimit { rlim_cur: gb << 30, rlim_max: gb << 30 };
    unsafe {
        libc::setrlimit(libc::RLIMIT_DATA, &lim);
    }
}
