//! Seeded generators shared by both engines: inputs, QR configurations and
//! renderer setter sequences. Pure functions of the PRNG: nothing here calls
//! the crate under test.

use crate::rng::Rng;
use crate::spec::*;

const ALNUM: &[u8] = b"0123456789ABCDEFGHIJKLMNOPQRSTUVWXYZ $%*+-./:";

/// Byte-mode capacity of V40-L; the largest input any configuration accepts is 7089 digits.
pub const MAX_DIGITS: usize = 7089;

#[derive(Clone, Copy, Debug, PartialEq, Eq)]
pub enum InputClass {
    Digits,
    Alnum,
    Bytes,
    Text,
    PadLike,
    Zeros,
    Ones,
    /// digits with one foreign character near the end: forced Numeric panics mid-encode
    DigitsThenForeign,
    /// alphanumeric with one lowercase character near the end: forced Alphanumeric panics mid-encode
    AlnumThenForeign,
}

pub const INPUT_CLASSES: [InputClass; 9] = [
    InputClass::Digits,
    InputClass::Alnum,
    InputClass::Bytes,
    InputClass::Text,
    InputClass::PadLike,
    InputClass::Zeros,
    InputClass::Ones,
    InputClass::DigitsThenForeign,
    InputClass::AlnumThenForeign,
];

pub fn gen_input_of(rng: &mut Rng, class: InputClass, len: usize) -> Vec<u8> {
    let mut v = Vec::with_capacity(len);
    for i in 0..len {
        let b = match class {
            InputClass::Digits => b'0' + rng.below(10) as u8,
            InputClass::Alnum => ALNUM[rng.usize_below(ALNUM.len())],
            InputClass::Bytes => rng.below(256) as u8,
            InputClass::Text => {
                const T: &[u8] = b"https://example.com/path?q=fast_qr&lang=fr#frag The quick brown fox, 42!";
                T[(i + rng.usize_below(3)) % T.len()]
            }
            InputClass::PadLike => {
                if i % 2 == 0 {
                    0xEC
                } else {
                    0x11
                }
            }
            InputClass::Zeros => 0,
            InputClass::Ones => 0xFF,
            InputClass::DigitsThenForeign => b'0' + rng.below(10) as u8,
            InputClass::AlnumThenForeign => ALNUM[rng.usize_below(ALNUM.len())],
        };
        v.push(b);
    }
    if matches!(class, InputClass::DigitsThenForeign | InputClass::AlnumThenForeign) && len > 0 {
        // the foreign character sits in the last few positions, so that most of the
        // segment has already been pushed when the documented panic is raised
        let pos = len - 1 - rng.usize_below(len.min(4));
        v[pos] = *rng.pick(&[b'x', b'q', b'~', b'a']);
    }
    v
}

/// Length distribution: mostly small, sometimes at a capacity boundary, rarely huge / over capacity.
pub fn gen_len(rng: &mut Rng, max_len: usize) -> usize {
    let l = match rng.weighted(&[4, 30, 30, 18, 10, 5, 3]) {
        0 => 0,
        1 => rng.range(1, 16) as usize,
        2 => rng.range(17, 80) as usize,
        3 => rng.range(81, 400) as usize,
        4 => rng.range(401, 1500) as usize,
        5 => rng.range(1501, 3000) as usize,
        _ => rng.range(3001, 7200) as usize,
    };
    l.min(max_len)
}

pub fn gen_input(rng: &mut Rng, max_len: usize) -> Vec<u8> {
    let class = INPUT_CLASSES[rng.weighted(&[18, 18, 22, 18, 4, 4, 4, 6, 6])];
    let len = gen_len(rng, max_len);
    gen_input_of(rng, class, len)
}

/// A configuration over `input`: each option forced with some probability.
/// `vmax`: largest forced version.
pub fn gen_cfg_over(rng: &mut Rng, input: Vec<u8>, vmax: u8, allow_forced_mode: bool) -> QrCfg {
    let mut c = QrCfg::new(input);
    if allow_forced_mode && rng.chance(1, 4) {
        // Mostly Byte (always valid); Numeric/Alphanumeric on a foreign input is the
        // crate's documented panic and is drawn deliberately by the C14 generator.
        c.mode = Some(if rng.chance(3, 4) { 2 } else { rng.below(3) as u8 });
    }
    if rng.chance(1, 2) {
        c.ecl = Some(rng.below(4) as u8);
    }
    if rng.chance(1, 3) {
        let v = match rng.weighted(&[6, 3, 1]) {
            0 => rng.range(1, 6.min(vmax as u64)),
            1 => rng.range(1, 15.min(vmax as u64)),
            _ => rng.range(1, vmax as u64),
        };
        c.version = Some(v as u8);
    }
    if rng.chance(1, 3) {
        c.mask = Some(rng.below(8) as u8);
    }
    c
}

pub fn gen_bsetter(rng: &mut Rng, vmax: u8) -> BSetter {
    match rng.below(4) {
        0 => BSetter::Mode(if rng.chance(2, 3) { 2 } else { rng.below(3) as u8 }),
        1 => BSetter::Ecl(rng.below(4) as u8),
        2 => BSetter::Version(if rng.chance(3, 4) {
            rng.range(1, 8.min(vmax as u64)) as u8
        } else {
            rng.range(1, vmax as u64) as u8
        }),
        _ => BSetter::Mask(rng.below(8) as u8),
    }
}

pub fn gen_color(rng: &mut Rng, raster_safe: bool) -> ColorSpec {
    // valid SVG paints in every spelling: opaque and see-through, hex of all four lengths,
    // functional notation, keywords
    const NAMED: [&str; 16] = [
        "#ff0000", "#00ff0080", "#123", "#ABCDEF", "#000000", "#fefefe", "none", "transparent", "#0008", "#fff0", "rgba(10,20,30,0.25)", "rgba(255,255,255,0)",
        "rgb(1,2,3)", "red", "white", "#12345600",
    ];
    // caller-supplied text is written verbatim: whitespace runs, tabs, line breaks, non-ASCII
    const ODD: [&str; 9] = [
        "red",
        "rgb(1,2,3)",
        "url(#g)",
        "rgb(10,  20,  30)",
        "  #fff  ",
        "rgb(1,\t2,\n3)",
        "hsl(120,\r\n 50%, 50%)",
        "coul\u{e9}ur-\u{540d}",
        "#fff ",
    ];
    match rng.below(if raster_safe { 4 } else { 5 }) {
        0 => ColorSpec::Rgba([rng.below(256) as u8, rng.below(256) as u8, rng.below(256) as u8, *rng.pick(&[255u8, 255, 0, 128])]),
        1 => ColorSpec::Rgb([rng.below(256) as u8, rng.below(256) as u8, rng.below(256) as u8]),
        2 => ColorSpec::Str(NAMED[rng.usize_below(NAMED.len())].to_string()),
        3 => {
            let n = if rng.chance(1, 2) { 3 } else { 4 };
            ColorSpec::Bytes((0..n).map(|_| rng.below(256) as u8).collect())
        }
        _ => ColorSpec::Str(ODD[rng.usize_below(ODD.len())].to_string()),
    }
}

pub fn gen_shape(rng: &mut Rng, allow_panicky: bool) -> ShapeSpec {
    // where callbacks that may panic are allowed, they are common: a user callback failing
    // part-way through a render is the one way a render is left early
    if allow_panicky && rng.chance(1, 4) {
        return ShapeSpec(SHAPE_PANICKY);
    }
    ShapeSpec(rng.below((N_SHAPES - 1) as u64) as u8)
}

thread_local! {
    /// File-backed image options are generated only while this is set (C14's generator sets it:
    /// its executor keeps the file's content in step with the model; C19's does not).
    pub static FILE_IMAGES: std::cell::Cell<bool> = const { std::cell::Cell::new(false) };
}

/// One renderer setter call. `raster_safe`: restrict to options for which
/// raster rendering is defined (valid colours, parseable images, fit > 0).
pub fn gen_rsetter(rng: &mut Rng, is_img: bool, raster_safe: bool, allow_panicky: bool) -> RSetter {
    let k = rng.weighted(&[14, 10, 10, 14, 8, 6, 5, 5, 5, 4, 4, if is_img { 8 } else { 0 }, if is_img { 7 } else { 0 }]);
    match k {
        0 => RSetter::Margin(*rng.pick(&[0usize, 1, 2, 4, 4, 7, 10])),
        1 => RSetter::ModuleColor(gen_color(rng, raster_safe)),
        2 => RSetter::BackgroundColor(gen_color(rng, raster_safe)),
        3 => RSetter::Shape(gen_shape(rng, allow_panicky)),
        4 => RSetter::ShapeColor(gen_shape(rng, allow_panicky), gen_color(rng, raster_safe)),
        5 => RSetter::Image(if raster_safe {
            if is_img && FILE_IMAGES.with(|f| f.get()) && rng.chance(2, 5) {
                if rng.chance(1, 3) {
                    ImageSpec::RelFile(rng.below(3) as u8)
                } else {
                    ImageSpec::File(rng.below(3) as u8)
                }
            } else if rng.chance(1, 2) {
                ImageSpec::Png
            } else {
                ImageSpec::Svg
            }
        } else {
            match rng.below(6) {
                0 => ImageSpec::Png,
                1 => ImageSpec::Svg,
                2 => ImageSpec::Filler(rng.range(0, 200) as usize),
                3 => ImageSpec::Raw("./logo.png".to_string()),
                _ => ImageSpec::Raw(
                    (*rng.pick(&[
                        // line-wrapped base64 (CRLF at a fixed column), as e-mail style encoders produce
                        "data:image/png;base64,iVBORw0KGgoAAAANSUhEUgAAAAEAAAABCAYAAAAfFcSJ\r\nAAAADUlEQVR42mP8z8BQDwAEhQGAhKmMIQAAAABJRU5ErkJggg==\r\n",
                        "data:image/png;base64,iVBORw0KGgo\nAAAANSUhEUg\n",
                        "images/my  logo\tfinal.png",
                        "donn\u{e9}es/\u{56fe}\u{6807} \u{1f4f7}.png",
                        " leading and trailing ",
                        "a\u{a0}b\u{2003}c",
                    ]))
                    .to_string(),
                ),
            }
        }),
        6 => RSetter::ImageBgColor(gen_color(rng, raster_safe)),
        7 => RSetter::ImageBgShape(rng.below(3) as u8),
        8 => RSetter::ImageSize(*rng.pick(&[3.0f64, 5.0, 7.5, 9.0, 11.0])),
        9 => RSetter::ImageGap(*rng.pick(&[0.0f64, 0.5, 1.0, 2.0])),
        10 => RSetter::ImagePosition(*rng.pick(&[8.0f64, 10.5, 14.0]), *rng.pick(&[8.0f64, 12.0, 14.5])),
        11 => RSetter::FitWidth(*rng.pick(&[16u32, 29, 64, 100, 128, 200, 256])),
        _ => RSetter::FitHeight(*rng.pick(&[16u32, 33, 64, 100, 177, 256])),
    }
}

pub fn gen_rsetters(rng: &mut Rng, is_img: bool, raster_safe: bool, allow_panicky: bool) -> Vec<RSetter> {
    let n = match rng.weighted(&[3, 4, 4, 2]) {
        0 => 0,
        1 => rng.range(1, 2),
        2 => rng.range(3, 5),
        _ => rng.range(6, 10),
    };
    let mut v: Vec<RSetter> = (0..n).map(|_| gen_rsetter(rng, is_img, raster_safe, allow_panicky)).collect();
    // now and then a renderer with very many shape layers (tables and vectors with a fixed
    // number of slots overflow somewhere between 16 and a few hundred entries)
    if rng.chance(1, 70) {
        let layers = match rng.weighted(&[5, 3, 1]) {
            0 => rng.range(17, 40),
            1 => rng.range(60, 130),
            _ => rng.range(250, 1100),
        };
        for _ in 0..layers {
            v.push(if rng.chance(1, 2) { RSetter::Shape(gen_shape(rng, false)) } else { RSetter::ShapeColor(gen_shape(rng, false), gen_color(rng, raster_safe)) });
        }
    }
    v
}
