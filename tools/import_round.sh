#!/bin/bash
# usage: tools/import_round.sh <agent-worktree> <seeded-id-prefix>   e.g. /tmp/mut/r3-b c14h
# Copies out/<n>/{patch.diff,demo.rs,README.md} to /verif/seeded/<prefix>-<n> and confirms each
# independently with tools/confirm_mutant.sh (scratch worktree). Prints one RESULT line per change.
set -u
WT=$1; PFX=$2
for n in 1 2 3; do
  src=$WT/out/$n
  [ -f $src/patch.diff ] || { echo "$PFX-$n missing"; continue; }
  dst=/verif/seeded/$PFX-$n
  mkdir -p $dst
  cp $src/patch.diff $src/demo.rs $dst/
  [ -f $src/README.md ] && cp $src/README.md $dst/
  log=/tmp/mut/confirm-$PFX-$n.log; : > $log
  /verif/tools/confirm_mutant.sh $dst $log
  echo "$PFX-$n $(grep RESULT $log | tail -1) | $(grep 'lib tests' $log | tail -1)"
done
