#!/bin/bash
# usage: tools/matrix.sh [tier] [parallel] [id ...]
# Runs every seeded change under /verif/seeded (or the ids given) through tools/mutrun.sh,
# `parallel` at a time, and rewrites seeded/RESULTS.md. Also runs the unchanged tree ("clean").
set -u
cd /verif
TIER=${1:-quick}; PAR=${2:-3}; shift; shift
IDS=${@:-$(ls seeded | grep -v '\.md$')}
OUT=/tmp/mutrun/logs-$TIER
mkdir -p $OUT
JOBS=$(mktemp)
for id in $IDS; do
  d=seeded/$id
  [ -f $d/patch.diff ] || continue
  prop=$(python3 -c "import json;print(json.load(open('$d/meta.json'))['check'])" 2>/dev/null || echo C14)
  echo "$d $prop" >> $JOBS
done
RES=$OUT/results.txt
: > $RES
xargs -P $PAR -L 1 sh -c 'tools/mutrun.sh $0 $1 '"$TIER $OUT" < $JOBS | tee -a $RES
rm -f $JOBS
if [ $# -eq 0 ]; then
  {
  echo "| seeded change | property | result ($TIER tier) | first violation |"
  echo "|---|---|---|---|"
  sort $RES | while read id prop ex viol first; do
    if [ "$ex" = "exit=1" ]; then r="caught (${viol#violations=} VIOLATION lines)"; else r="**MISSED** ($ex)"; fi
    echo "| $id | $prop | $r | ${first#first=} |"
  done
  } > seeded/RESULTS.md
fi
