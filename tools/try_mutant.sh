#!/bin/bash
# usage: tools/try_mutant.sh <patch.diff> <C14|C19> [quick|thorough]
# Applies a seeded change to /repo, runs the check, and always restores /repo afterwards.
set -u
PATCH=$(readlink -f "$1"); ID=$2; TIER=${3:-quick}
cd /repo || exit 2
if [ -n "$(git status --porcelain -- src Cargo.toml)" ]; then echo "repo not clean"; exit 2; fi
git apply "$PATCH" || { echo "patch does not apply"; exit 2; }
trap 'cd /repo && git checkout -- . && git clean -fdq -e target -e Cargo.lock >/dev/null 2>&1' EXIT
cd /verif && ./check "$ID" "$TIER"
echo "exit=$?"
