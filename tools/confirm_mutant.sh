#!/bin/bash
# usage: tools/confirm_mutant.sh <mutant-dir> <out-log>
# Independently confirms a seeded change in a scratch worktree of /repo (never in /repo itself):
#  - applies, builds with and without hooks, the 174 existing tests pass
#  - the demonstration FAILS with the change and PASSES without it
set -u
D=$(readlink -f "$1"); LOG=$2
WT=/tmp/mut/confirm-wt-$$
export CARGO_NET_OFFLINE=true CARGO_TARGET_DIR=/tmp/mut/confirm-target
git -C /repo worktree add -q --detach "$WT" HEAD || exit 2
trap 'git -C /repo worktree remove --force "$WT" >/dev/null 2>&1' EXIT
cd "$WT"
{
echo "== mutant $D"
git apply "$D/patch.diff" || { echo "RESULT apply_failed"; exit 1; }
T=$(cargo test --offline --lib 2>&1 | grep "test result" | head -1); echo "lib tests with change: $T"
cargo build --offline --features svg,image,verif-hooks 2>&1 | tail -1
mkdir -p tests; cp "$D"/demo.rs tests/demo.rs
cargo test --offline --features svg,image --test demo -- --test-threads=1 > /tmp/mut/demo-with-$$.log 2>&1; W=$?
grep "test result" /tmp/mut/demo-with-$$.log | head -2
git checkout -q -- src Cargo.toml
cargo test --offline --features svg,image --test demo -- --test-threads=1 > /tmp/mut/demo-without-$$.log 2>&1; WO=$?
grep "test result" /tmp/mut/demo-without-$$.log | head -2
echo "demo exit with change: $W ; without: $WO"
if echo "$T" | grep -q "174 passed; 0 failed" && [ $W -ne 0 ] && [ $WO -eq 0 ]; then echo "RESULT confirmed"; else echo "RESULT NOT_CONFIRMED"; fi
rm -f /tmp/mut/demo-with-$$.log /tmp/mut/demo-without-$$.log
} >> "$LOG" 2>&1
