#!/bin/bash
# usage: tools/run_seeded.sh [tier] [id ...]
# Applies every seeded change under /verif/seeded to /repo (one at a time, always restored),
# runs the quick check of the property it breaks, and records whether it was caught.
set -u
cd /verif
TIER=${1:-quick}; shift || true
IDS=${@:-$(ls seeded | grep -v '\.md$')}
OUT=/verif/seeded/RESULTS.md
TMP=$(mktemp)
echo "| seeded change | property | caught by | first violation | wall |" > $TMP
echo "|---|---|---|---|---|" >> $TMP
for id in $IDS; do
  d=seeded/$id
  [ -f $d/patch.diff ] || continue
  prop=$(python3 -c "import json;print(json.load(open('$d/meta.json'))['check'])" 2>/dev/null || echo C14)
  t0=$(date +%s)
  log=$(timeout 1500 tools/try_mutant.sh $d/patch.diff $prop $TIER 2>&1)
  t1=$(date +%s)
  ex=$(echo "$log" | grep -o "exit=[0-9]*" | tail -1)
  first=$(echo "$log" | grep -E "^violation" | head -1 | cut -c1-160 | tr '|' '/')
  n=$(echo "$log" | grep -c "^VIOLATION")
  if [ "$ex" = "exit=1" ]; then res="./check $prop $TIER ($n VIOLATION lines)"; else res="**MISSED** ($ex)"; fi
  echo "| $id | $prop | $res | $first | $((t1-t0)) s |" >> $TMP
  echo "$id $prop $ex $n"
done
mv $TMP $OUT
git -C /repo status --short
