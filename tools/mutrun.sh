#!/bin/bash
# usage: tools/mutrun.sh <seeded-dir> <C14|C19> [quick|thorough] [out-dir]
# Runs a check against a seeded change WITHOUT touching /repo or /verif: a scratch worktree of
# /repo gets the patch, a scratch copy of /verif's machinery is pointed at it (the only edit is
# the path of the crate), the check runs there, and both are removed afterwards. Used to run many
# seeded changes in parallel; tools/try_mutant.sh (apply to /repo, run /verif, restore) is the
# reference procedure and gives the same verdicts.
# Prints: "<id> <prop> exit=<n> violations=<n> first=<invariant>"; the log stays in <out-dir>.
set -u
D=$(readlink -f "$1"); PROP=$2; TIER=${3:-quick}; OUT=${4:-/tmp/mutrun/logs}
ID=$(basename "$D")
BASE=/tmp/mutrun/$ID-$PROP-$$
mkdir -p "$OUT" "$BASE"
cleanup() { git -C /repo worktree remove --force "$BASE/repo" >/dev/null 2>&1; rm -rf "$BASE"; }
trap cleanup EXIT
git -C /repo worktree add -q --detach "$BASE/repo" HEAD || { echo "$ID $PROP exit=2 worktree_failed"; exit 2; }
if [ -f "$D/patch.diff" ]; then
  git -C "$BASE/repo" apply "$D/patch.diff" || { echo "$ID $PROP exit=2 apply_failed"; exit 2; }
fi
mkdir -p "$BASE/verif"
# the committed machinery (HEAD), not the working tree: edits in progress must not leak into a run
git -C /verif archive ${VERIF_COMMIT:-HEAD} -- . ':!seeded' ':!evidence' | ( cd "$BASE/verif" && tar xf - )
mkdir -p "$BASE/verif/evidence" "$BASE/verif/replays"
sed -i "s#path = \"/repo\"#path = \"$BASE/repo\"#" "$BASE/verif/sim/Cargo.toml" "$BASE/verif/miri-c14/Cargo.toml"
sed -i "s#^REPO = \"/repo\"#REPO = \"$BASE/repo\"#" "$BASE/verif/tools/gen_shadow.py"
sed -i "s#/verif/target#$BASE/verif/target#" "$BASE/verif/.cargo/config.toml"
LOG="$OUT/$ID-$PROP-$TIER.log"
( cd "$BASE/verif" && VERIF_WORKERS=${VERIF_WORKERS:-16} ./check "$PROP" "$TIER" ) > "$LOG" 2>&1
EX=$?
N=$(grep -c "^VIOLATION" "$LOG")
FIRST=$(grep -E "^violation" "$LOG" | head -1 | cut -c1-140 | iconv -f utf-8 -t utf-8 -c | tr '|' '/')
# keep the first replay file next to the log, for inspection
R=$(grep -o "replay=[^ ]*" "$LOG" | head -1 | cut -d= -f2)
[ -n "$R" ] && [ -f "$R" ] && cp "$R" "$OUT/$ID-$PROP-$TIER.replay.json"
echo "$ID $PROP exit=$EX violations=$N first=$FIRST"
exit 0
