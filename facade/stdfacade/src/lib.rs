//! A facade over `std`, used only for the simulation build of `fast_qr`: the
//! shadow manifest names this crate `std`, so every `std::...` path (and the
//! implicit prelude) in the crate under test resolves here. Everything is
//! re-exported unchanged except the blocking/shared-state primitives of
//! `std::sync`, which become scheduling points of the simulator:
//!
//! * before every lock / unlock-visible operation the simulator's hook runs;
//! * acquiring never blocks in the kernel while the caller holds the
//!   scheduler's baton: it is `try_*` in a loop, and a failed attempt tells the
//!   scheduler "blocked — run somebody else";
//! * on threads that are not simulated tasks everything degrades to the real
//!   blocking behaviour.
//!
//! `LockResult`, poisoning, `Arc`, the RwLock guards and the channel queues are std's own, so
//! semantics other than *who runs next* are std's. `Condvar`, `Barrier`, `mpsc` and
//! `thread::spawn`/`scope` are wrappers whose waiting happens under the scheduler; a thread the
//! crate under test spawns from a simulated task is itself a simulated task.
#![no_std]
#![allow(clippy::new_without_default)]

extern crate std as rstd;

pub use rstd::*;

/// `std::time` on a simulated clock: for a simulated task, `now()` is a fixed base plus the
/// simulator's clock, which jumps forward by seeded amounts (microseconds to days) at every
/// reading; `SystemTime` may additionally be skewed and step backwards, as wall clocks do.
/// Any other thread reads the real clock.
pub mod time {
    pub use rstd::time::{Duration, SystemTimeError, TryFromFloatSecsError};

    use fqcore::__fqsim::clock;
    use rstd::ops::{Add, AddAssign, Sub, SubAssign};
    use rstd::sync::OnceLock;
    use rstd::time as real;

    static BASE: OnceLock<real::Instant> = OnceLock::new();

    #[derive(Copy, Clone, PartialEq, Eq, PartialOrd, Ord, Hash)]
    pub struct Instant(real::Instant);

    impl Instant {
        pub fn now() -> Instant {
            match clock(0) {
                Some(ns) => Instant(*BASE.get_or_init(real::Instant::now) + Duration::from_nanos(ns)),
                None => Instant(real::Instant::now()),
            }
        }
        pub fn duration_since(&self, earlier: Instant) -> Duration {
            self.0.duration_since(earlier.0)
        }
        pub fn checked_duration_since(&self, earlier: Instant) -> Option<Duration> {
            self.0.checked_duration_since(earlier.0)
        }
        pub fn saturating_duration_since(&self, earlier: Instant) -> Duration {
            self.0.saturating_duration_since(earlier.0)
        }
        pub fn elapsed(&self) -> Duration {
            Instant::now().0.saturating_duration_since(self.0)
        }
        pub fn checked_add(&self, d: Duration) -> Option<Instant> {
            self.0.checked_add(d).map(Instant)
        }
        pub fn checked_sub(&self, d: Duration) -> Option<Instant> {
            self.0.checked_sub(d).map(Instant)
        }
    }
    impl Add<Duration> for Instant {
        type Output = Instant;
        fn add(self, d: Duration) -> Instant {
            Instant(self.0 + d)
        }
    }
    impl AddAssign<Duration> for Instant {
        fn add_assign(&mut self, d: Duration) {
            self.0 += d;
        }
    }
    impl Sub<Duration> for Instant {
        type Output = Instant;
        fn sub(self, d: Duration) -> Instant {
            Instant(self.0 - d)
        }
    }
    impl SubAssign<Duration> for Instant {
        fn sub_assign(&mut self, d: Duration) {
            self.0 -= d;
        }
    }
    impl Sub<Instant> for Instant {
        type Output = Duration;
        fn sub(self, o: Instant) -> Duration {
            self.0.saturating_duration_since(o.0)
        }
    }
    impl rstd::fmt::Debug for Instant {
        fn fmt(&self, f: &mut rstd::fmt::Formatter<'_>) -> rstd::fmt::Result {
            rstd::fmt::Debug::fmt(&self.0, f)
        }
    }

    /// 2027-01-15: a fixed origin for simulated wall-clock time.
    const SIM_EPOCH_SECS: u64 = 1_800_000_000;

    #[derive(Copy, Clone, PartialEq, Eq, PartialOrd, Ord, Hash)]
    pub struct SystemTime(real::SystemTime);

    pub const UNIX_EPOCH: SystemTime = SystemTime(real::UNIX_EPOCH);

    impl SystemTime {
        pub const UNIX_EPOCH: SystemTime = SystemTime(real::UNIX_EPOCH);

        pub fn now() -> SystemTime {
            match clock(0) {
                Some(ns) => {
                    // wall clocks are not monotonic: a skew derived from the reading itself
                    // occasionally steps the result back by up to ~2 s
                    let skew_back = if ns % 7 == 3 { (ns / 7) % 2_000_000_000 } else { 0 };
                    let t = real::UNIX_EPOCH + Duration::from_secs(SIM_EPOCH_SECS) + Duration::from_nanos(ns);
                    SystemTime(t - Duration::from_nanos(skew_back))
                }
                None => SystemTime(real::SystemTime::now()),
            }
        }
        pub fn duration_since(&self, earlier: SystemTime) -> Result<Duration, SystemTimeError> {
            self.0.duration_since(earlier.0)
        }
        pub fn elapsed(&self) -> Result<Duration, SystemTimeError> {
            SystemTime::now().0.duration_since(self.0)
        }
        pub fn checked_add(&self, d: Duration) -> Option<SystemTime> {
            self.0.checked_add(d).map(SystemTime)
        }
        pub fn checked_sub(&self, d: Duration) -> Option<SystemTime> {
            self.0.checked_sub(d).map(SystemTime)
        }
    }
    impl Add<Duration> for SystemTime {
        type Output = SystemTime;
        fn add(self, d: Duration) -> SystemTime {
            SystemTime(self.0 + d)
        }
    }
    impl AddAssign<Duration> for SystemTime {
        fn add_assign(&mut self, d: Duration) {
            self.0 += d;
        }
    }
    impl Sub<Duration> for SystemTime {
        type Output = SystemTime;
        fn sub(self, d: Duration) -> SystemTime {
            SystemTime(self.0 - d)
        }
    }
    impl SubAssign<Duration> for SystemTime {
        fn sub_assign(&mut self, d: Duration) {
            self.0 -= d;
        }
    }
    impl rstd::fmt::Debug for SystemTime {
        fn fmt(&self, f: &mut rstd::fmt::Formatter<'_>) -> rstd::fmt::Result {
            rstd::fmt::Debug::fmt(&self.0, f)
        }
    }
    impl From<SystemTime> for real::SystemTime {
        fn from(t: SystemTime) -> real::SystemTime {
            t.0
        }
    }
}

/// `std::env`: what a simulated task sees when the crate under test looks at an environment
/// variable is decided by the simulator - per episode and per variable name either the real
/// value, "not set", or one of a handful of plausible values - because the environment is an
/// input the crate's callers do not pass and therefore must not influence results. A variable
/// the crate has set or removed itself is left alone afterwards. Other threads see the real one.
pub mod env {
    pub use rstd::env::*;

    use fqcore::__fqsim::{ctl, TASK_KEY};
    use rstd::ffi::{OsStr, OsString};
    use rstd::string::{String, ToString};
    use rstd::vec::Vec;

    static TOUCHED: rstd::sync::Mutex<Vec<OsString>> = rstd::sync::Mutex::new(Vec::new());

    const VALUES: [&str; 20] = [
        "1", "0", "", "true", "false", "dumb", "xterm-256color", "C", "POSIX", "en_US.UTF-8", "en_US", "de_DE.ISO-8859-1", "ja_JP.eucJP", "80", "3", "/tmp", "never", "always", "42", "off",
    ];

    /// `None`: use the real environment; `Some(None)`: not set; `Some(Some(v))`: this value.
    fn simulated(key: &OsStr) -> Option<Option<String>> {
        let k = ctl(TASK_KEY, 0);
        if k == 0 {
            return None;
        }
        if TOUCHED.lock().unwrap_or_else(|e| e.into_inner()).iter().any(|t| t.as_os_str() == key) {
            return None;
        }
        // FNV-1a over the name, mixed with the episode key: stable within an episode
        let mut h: u64 = 0xcbf29ce484222325 ^ k;
        for b in key.as_encoded_bytes() {
            h = (h ^ *b as u64).wrapping_mul(0x100000001b3);
        }
        h ^= h >> 29;
        match h % 10 {
            0..=2 => None,
            3..=5 => Some(None),
            _ => {
                // values that mean something for well-known variables, otherwise generic ones
                let special: &[&str] = match key.to_str().unwrap_or("") {
                    "COLORFGBG" => &["15;0", "0;15", "0;default;15", "7;0", "0;7", "12;8"],
                    "TERM" => &["dumb", "xterm", "xterm-256color", "linux", "vt100", "screen"],
                    "COLORTERM" => &["truecolor", "24bit", "", "1"],
                    "NO_COLOR" | "CLICOLOR" | "CLICOLOR_FORCE" | "FORCE_COLOR" => &["1", "0", "", "true"],
                    "LANG" | "LC_ALL" | "LC_CTYPE" | "LC_MESSAGES" | "LANGUAGE" => &["C", "POSIX", "en_US.UTF-8", "en_US", "de_DE.ISO-8859-1", "ja_JP.eucJP", "C.UTF-8", "tr_TR.UTF-8"],
                    "TZ" => &["UTC", "Europe/Paris", "America/Los_Angeles", ":/etc/localtime", "JST-9"],
                    "COLUMNS" | "LINES" => &["80", "24", "1", "0", "200", "abc"],
                    "SOURCE_DATE_EPOCH" => &["0", "1", "1700000000", "-1", "x"],
                    "HOME" | "TMPDIR" | "TMP" | "TEMP" | "XDG_CACHE_HOME" | "XDG_CONFIG_HOME" => &["/tmp", "/nonexistent", "", "/"],
                    _ => &[],
                };
                if !special.is_empty() {
                    return Some(Some(special[((h >> 8) % special.len() as u64) as usize].to_string()));
                }
                Some(Some(VALUES[((h >> 8) % VALUES.len() as u64) as usize].to_string()))
            }
        }
    }

    pub fn var<K: AsRef<OsStr>>(key: K) -> Result<String, VarError> {
        match simulated(key.as_ref()) {
            None => rstd::env::var(key),
            Some(None) => Err(VarError::NotPresent),
            Some(Some(v)) => Ok(v),
        }
    }

    pub fn var_os<K: AsRef<OsStr>>(key: K) -> Option<OsString> {
        match simulated(key.as_ref()) {
            None => rstd::env::var_os(key),
            Some(None) => None,
            Some(Some(v)) => Some(OsString::from(v)),
        }
    }

    fn touch(key: &OsStr) {
        let mut t = TOUCHED.lock().unwrap_or_else(|e| e.into_inner());
        if !t.iter().any(|x| x.as_os_str() == key) {
            t.push(key.to_os_string());
        }
    }

    // safe signatures (as before edition 2024) so that callers of either edition compile
    #[allow(unused_unsafe)]
    pub fn set_var<K: AsRef<OsStr>, V: AsRef<OsStr>>(key: K, value: V) {
        touch(key.as_ref());
        unsafe { rstd::env::set_var(key, value) }
    }

    #[allow(unused_unsafe)]
    pub fn remove_var<K: AsRef<OsStr>>(key: K) {
        touch(key.as_ref());
        unsafe { rstd::env::remove_var(key) }
    }
}

/// `std::thread`: `sleep` runs on the simulated clock, `yield_now` is a scheduling point, and a
/// thread started by a simulated task becomes a simulated task itself (scheduled by the seeded
/// scheduler like any caller; `join` is a "blocked" scheduling point, never a kernel wait while
/// the baton is held). Threads started by any other thread are ordinary threads.
pub mod thread {
    pub use rstd::thread::{
        available_parallelism, panicking, AccessError, LocalKey, Result, ThreadId,
    };

    use fqcore::__fqsim::{blocked, ctl, TASK_DONE, TASK_ENTER, TASK_EXIT, TASK_SPAWN};
    use rstd::boxed::Box;
    use rstd::io;
    use rstd::panic::{catch_unwind, resume_unwind, AssertUnwindSafe};
    use rstd::string::String;
    use rstd::thread as real;
    use rstd::vec::Vec;

    pub fn sleep(d: rstd::time::Duration) {
        let ns = d.as_nanos().min(u64::MAX as u128) as u64;
        if fqcore::__fqsim::clock(ns.max(1)).is_some() {
            // simulated time has advanced by `d`; let somebody else run, as a real sleep would
            fqcore::__fqsim::point("sync:sleep");
        } else {
            rstd::thread::sleep(d);
        }
    }

    pub fn yield_now() {
        fqcore::__fqsim::point("sync:yield_now");
        rstd::thread::yield_now();
    }

    // ------------------------------------------------------------ park / unpark
    // `Thread` is our own handle (std's plus the park token the simulator can see): `park` is a
    // "blocked" scheduling point until somebody has called `unpark` on this thread's handle, a
    // spurious return is a seeded choice (std documents it as legal), `park_timeout` runs on the
    // simulated clock. The token of the real thread is set as well, so that a thread that is not
    // (or no longer) a simulated task parks and wakes in the kernel as usual.
    struct ParkState {
        token: rstd::sync::atomic::AtomicBool,
    }

    static PARKS: rstd::sync::Mutex<Option<rstd::collections::HashMap<ThreadId, rstd::sync::Arc<ParkState>>>> = rstd::sync::Mutex::new(None);

    fn park_state(id: ThreadId) -> rstd::sync::Arc<ParkState> {
        let mut g = PARKS.lock().unwrap_or_else(|e| e.into_inner());
        g.get_or_insert_with(rstd::collections::HashMap::new)
            .entry(id)
            .or_insert_with(|| rstd::sync::Arc::new(ParkState { token: rstd::sync::atomic::AtomicBool::new(false) }))
            .clone()
    }

    fn forget_park_state(id: ThreadId) {
        if let Ok(mut g) = PARKS.lock() {
            if let Some(m) = g.as_mut() {
                m.remove(&id);
            }
        }
    }

    #[derive(Clone)]
    pub struct Thread {
        real: real::Thread,
        st: rstd::sync::Arc<ParkState>,
    }

    impl Thread {
        fn of(real: real::Thread) -> Thread {
            let st = park_state(real.id());
            Thread { real, st }
        }
        pub fn id(&self) -> ThreadId {
            self.real.id()
        }
        pub fn name(&self) -> Option<&str> {
            self.real.name()
        }
        pub fn unpark(&self) {
            fqcore::__fqsim::point("sync:unpark");
            self.st.token.store(true, rstd::sync::atomic::Ordering::SeqCst);
            self.real.unpark();
        }
    }

    impl rstd::fmt::Debug for Thread {
        fn fmt(&self, f: &mut rstd::fmt::Formatter<'_>) -> rstd::fmt::Result {
            rstd::fmt::Debug::fmt(&self.real, f)
        }
    }

    pub fn current() -> Thread {
        Thread::of(real::current())
    }

    fn park_sim(timeout: Option<rstd::time::Duration>) {
        use fqcore::__fqsim::{clock, is_task, point, TASK_RAND};
        use rstd::sync::atomic::Ordering::SeqCst;
        let st = park_state(real::current().id());
        if !is_task() {
            match timeout {
                Some(d) => real::park_timeout(d),
                None => real::park(),
            }
            st.token.store(false, SeqCst);
            return;
        }
        let deadline = timeout.map(|d| clock(0).unwrap_or(0).saturating_add(d.as_nanos().min(u64::MAX as u128) as u64));
        point("sync:park");
        loop {
            if st.token.swap(false, SeqCst) {
                return;
            }
            if is_task() {
                // "may return spuriously" (std::thread::park)
                if ctl(TASK_RAND, 48) == 47 {
                    return;
                }
                if let Some(dl) = deadline {
                    if clock(0).map(|n| n >= dl).unwrap_or(true) {
                        return;
                    }
                }
            }
            if !blocked("sync:park_blocked") {
                // nobody the scheduler knows can run, or released from the simulation: wait in
                // the kernel for a moment (an unpark sets the real token too)
                real::park_timeout(rstd::time::Duration::from_millis(2));
                if !is_task() {
                    st.token.store(false, SeqCst);
                    return; // a spurious return is legal; callers re-check their condition
                }
            }
        }
    }

    pub fn park() {
        park_sim(None)
    }

    pub fn park_timeout(dur: rstd::time::Duration) {
        park_sim(Some(dur))
    }

    #[allow(deprecated)]
    pub fn park_timeout_ms(ms: u32) {
        park_sim(Some(rstd::time::Duration::from_millis(ms as u64)))
    }

    struct ExitGuard(u64);
    impl Drop for ExitGuard {
        fn drop(&mut self) {
            forget_park_state(real::current().id());
            if self.0 != 0 {
                ctl(TASK_EXIT, self.0);
            }
        }
    }

    fn wrap<F: FnOnce() -> T, T>(token: u64, f: F) -> impl FnOnce() -> T {
        move || {
            if token != 0 {
                ctl(TASK_ENTER, token);
            }
            let _g = ExitGuard(token);
            f()
        }
    }

    fn wait_done(token: u64, site: &'static str) {
        if token != 0 {
            while ctl(TASK_DONE, token) == 0 {
                if !blocked(site) {
                    break; // not (or no longer) simulated: the real join below waits
                }
            }
        }
    }

    pub struct JoinHandle<T> {
        real: real::JoinHandle<T>,
        token: u64,
        thread: Thread,
    }

    impl<T> JoinHandle<T> {
        pub fn join(self) -> Result<T> {
            wait_done(self.token, "sync:join_blocked");
            self.real.join()
        }
        pub fn thread(&self) -> &Thread {
            &self.thread
        }
        pub fn is_finished(&self) -> bool {
            fqcore::__fqsim::point("sync:is_finished");
            if self.token != 0 {
                return ctl(TASK_DONE, self.token) == 1;
            }
            self.real.is_finished()
        }
    }

    impl<T> rstd::fmt::Debug for JoinHandle<T> {
        fn fmt(&self, f: &mut rstd::fmt::Formatter<'_>) -> rstd::fmt::Result {
            f.debug_struct("JoinHandle").finish_non_exhaustive()
        }
    }

    pub fn spawn<F, T>(f: F) -> JoinHandle<T>
    where
        F: FnOnce() -> T + Send + 'static,
        T: Send + 'static,
    {
        Builder::new().spawn(f).expect("failed to spawn thread")
    }

    #[derive(Debug)]
    pub struct Builder(real::Builder);

    impl Builder {
        pub fn new() -> Builder {
            Builder(real::Builder::new())
        }
        pub fn name(self, name: String) -> Builder {
            Builder(self.0.name(name))
        }
        pub fn stack_size(self, size: usize) -> Builder {
            Builder(self.0.stack_size(size))
        }
        pub fn spawn<F, T>(self, f: F) -> io::Result<JoinHandle<T>>
        where
            F: FnOnce() -> T + Send + 'static,
            T: Send + 'static,
        {
            fqcore::__fqsim::point("sync:spawn");
            let token = ctl(TASK_SPAWN, 0);
            match self.0.spawn(wrap(token, f)) {
                Ok(real) => {
                    let thread = Thread::of(real.thread().clone());
                    Ok(JoinHandle { real, token, thread })
                }
                Err(e) => {
                    if token != 0 {
                        ctl(TASK_EXIT, token);
                    }
                    Err(e)
                }
            }
        }
        pub fn spawn_scoped<'scope, 'env, F, T>(self, scope: &'scope Scope<'scope, 'env>, f: F) -> io::Result<ScopedJoinHandle<'scope, T>>
        where
            F: FnOnce() -> T + Send + 'scope,
            T: Send + 'scope,
        {
            fqcore::__fqsim::point("sync:spawn");
            let token = ctl(TASK_SPAWN, 0);
            if token != 0 {
                scope.tokens.lock().unwrap_or_else(|e| e.into_inner()).push(token);
            }
            match self.0.spawn_scoped(scope.real, wrap(token, f)) {
                Ok(real) => {
                    let thread = Thread::of(real.thread().clone());
                    Ok(ScopedJoinHandle { real, token, thread })
                }
                Err(e) => {
                    if token != 0 {
                        ctl(TASK_EXIT, token);
                    }
                    Err(e)
                }
            }
        }
    }

    impl Default for Builder {
        fn default() -> Self {
            Builder::new()
        }
    }

    pub struct Scope<'scope, 'env: 'scope> {
        real: &'scope real::Scope<'scope, 'env>,
        tokens: rstd::sync::Mutex<Vec<u64>>,
    }

    pub struct ScopedJoinHandle<'scope, T> {
        real: real::ScopedJoinHandle<'scope, T>,
        token: u64,
        thread: Thread,
    }

    impl<'scope, T> ScopedJoinHandle<'scope, T> {
        pub fn join(self) -> Result<T> {
            wait_done(self.token, "sync:join_blocked");
            self.real.join()
        }
        pub fn thread(&self) -> &Thread {
            &self.thread
        }
        pub fn is_finished(&self) -> bool {
            fqcore::__fqsim::point("sync:is_finished");
            if self.token != 0 {
                return ctl(TASK_DONE, self.token) == 1;
            }
            self.real.is_finished()
        }
    }

    impl<'scope, 'env> Scope<'scope, 'env> {
        pub fn spawn<F, T>(&'scope self, f: F) -> ScopedJoinHandle<'scope, T>
        where
            F: FnOnce() -> T + Send + 'scope,
            T: Send + 'scope,
        {
            Builder::new().spawn_scoped(self, f).expect("failed to spawn thread")
        }
    }

    pub fn scope<'env, F, T>(f: F) -> T
    where
        F: for<'scope> FnOnce(&'scope Scope<'scope, 'env>) -> T,
    {
        real::scope(|rs| {
            // Leaked on purpose (a few bytes per call, simulation builds only): scoped threads
            // hold `&Scope` for as long as they run, and although we wait for all of them below,
            // a thread released by the simulator may outlive that wait.
            let ours: &Scope<'_, 'env> = Box::leak(Box::new(Scope { real: rs, tokens: rstd::sync::Mutex::new(Vec::new()) }));
            let out = catch_unwind(AssertUnwindSafe(|| f(ours)));
            // the implicit join at the end of the scope: wait under the scheduler, not in the kernel
            loop {
                let pending: Vec<u64> = ours.tokens.lock().unwrap_or_else(|e| e.into_inner()).clone();
                match pending.iter().find(|t| ctl(TASK_DONE, **t) == 0) {
                    None => break,
                    Some(_) => {
                        if !blocked("sync:scope_join_blocked") {
                            break;
                        }
                    }
                }
            }
            match out {
                Ok(v) => v,
                Err(p) => resume_unwind(p),
            }
        })
    }
}

pub mod sync {
    pub use rstd::sync::*;

    /// `std::sync::atomic` with every access a scheduling point.
    pub mod atomic {
        pub use fqcore::sync::atomic::*;
    }

    use fqcore::__fqsim::{blocked, point};
    use rstd::cell::UnsafeCell;
    use rstd::fmt;
    use rstd::mem::MaybeUninit;
    use rstd::ops::Deref;
    use rstd::panic::{RefUnwindSafe, UnwindSafe};
    use rstd::sync as real;
    use rstd::sync::atomic::{AtomicU8, Ordering};

    // ------------------------------------------------------------------ Mutex
    pub struct Mutex<T: ?Sized>(real::Mutex<T>);

    /// std's guard plus a reference to the mutex it locks, which `Condvar::wait` needs in order
    /// to re-acquire the lock under the scheduler instead of inside a kernel wait.
    pub struct MutexGuard<'a, T: ?Sized + 'a> {
        g: real::MutexGuard<'a, T>,
        m: &'a Mutex<T>,
    }

    impl<T: ?Sized> Deref for MutexGuard<'_, T> {
        type Target = T;
        fn deref(&self) -> &T {
            &self.g
        }
    }
    impl<T: ?Sized> rstd::ops::DerefMut for MutexGuard<'_, T> {
        fn deref_mut(&mut self) -> &mut T {
            &mut self.g
        }
    }
    impl<T: ?Sized + fmt::Debug> fmt::Debug for MutexGuard<'_, T> {
        fn fmt(&self, f: &mut fmt::Formatter<'_>) -> fmt::Result {
            fmt::Debug::fmt(&*self.g, f)
        }
    }
    impl<T: ?Sized + fmt::Display> fmt::Display for MutexGuard<'_, T> {
        fn fmt(&self, f: &mut fmt::Formatter<'_>) -> fmt::Result {
            fmt::Display::fmt(&*self.g, f)
        }
    }

    impl<T> Mutex<T> {
        #[inline]
        pub const fn new(t: T) -> Mutex<T> {
            Mutex(real::Mutex::new(t))
        }
        pub fn into_inner(self) -> real::LockResult<T> {
            self.0.into_inner()
        }
    }

    impl<T: ?Sized> Mutex<T> {
        fn wrap<'a>(&'a self, r: real::LockResult<real::MutexGuard<'a, T>>) -> real::LockResult<MutexGuard<'a, T>> {
            match r {
                Ok(g) => Ok(MutexGuard { g, m: self }),
                Err(p) => Err(real::PoisonError::new(MutexGuard { g: p.into_inner(), m: self })),
            }
        }
        pub fn lock(&self) -> real::LockResult<MutexGuard<'_, T>> {
            // one ordinary scheduling point before the first attempt; a retry after having been
            // blocked is not progress and must not look like it to the deadlock detector
            point("sync:mutex_lock");
            loop {
                match self.0.try_lock() {
                    Ok(g) => return Ok(MutexGuard { g, m: self }),
                    Err(real::TryLockError::Poisoned(p)) => {
                        return Err(real::PoisonError::new(MutexGuard { g: p.into_inner(), m: self }))
                    }
                    Err(real::TryLockError::WouldBlock) => {
                        if !blocked("sync:mutex_blocked") {
                            return self.wrap(self.0.lock());
                        }
                    }
                }
            }
        }
        pub fn try_lock(&self) -> real::TryLockResult<MutexGuard<'_, T>> {
            point("sync:mutex_try_lock");
            match self.0.try_lock() {
                Ok(g) => Ok(MutexGuard { g, m: self }),
                Err(real::TryLockError::Poisoned(p)) => {
                    Err(real::TryLockError::Poisoned(real::PoisonError::new(MutexGuard { g: p.into_inner(), m: self })))
                }
                Err(real::TryLockError::WouldBlock) => Err(real::TryLockError::WouldBlock),
            }
        }
        pub fn is_poisoned(&self) -> bool {
            self.0.is_poisoned()
        }
        pub fn clear_poison(&self) {
            self.0.clear_poison()
        }
        pub fn get_mut(&mut self) -> real::LockResult<&mut T> {
            self.0.get_mut()
        }
    }

    impl<T> From<T> for Mutex<T> {
        fn from(t: T) -> Self {
            Mutex::new(t)
        }
    }
    impl<T: Default> Default for Mutex<T> {
        fn default() -> Self {
            Mutex::new(T::default())
        }
    }
    impl<T: ?Sized + fmt::Debug> fmt::Debug for Mutex<T> {
        fn fmt(&self, f: &mut fmt::Formatter<'_>) -> fmt::Result {
            fmt::Debug::fmt(&self.0, f)
        }
    }

    // ---------------------------------------------------------------- Condvar
    static NEXT_TICKET: rstd::sync::atomic::AtomicU64 = rstd::sync::atomic::AtomicU64::new(1);

    /// A condition variable whose waiting happens under the scheduler: a waiting task releases
    /// the mutex, is "blocked" until a notification removes its ticket (or, legally, wakes up
    /// spuriously by a seeded choice, or its simulated timeout expires) and then re-acquires the
    /// mutex. Threads that are not simulated tasks use the real condition variable inside;
    /// notifications always go to both.
    pub struct Condvar {
        real: real::Condvar,
        tickets: real::Mutex<rstd::vec::Vec<u64>>,
    }

    #[derive(Debug, PartialEq, Eq, Copy, Clone)]
    pub struct WaitTimeoutResult(bool);

    impl WaitTimeoutResult {
        #[must_use]
        pub fn timed_out(&self) -> bool {
            self.0
        }
    }

    impl Condvar {
        #[inline]
        pub const fn new() -> Condvar {
            Condvar { real: real::Condvar::new(), tickets: real::Mutex::new(rstd::vec::Vec::new()) }
        }

        fn q(&self) -> real::MutexGuard<'_, rstd::vec::Vec<u64>> {
            self.tickets.lock().unwrap_or_else(|e| e.into_inner())
        }

        fn drop_ticket(&self, t: u64) {
            self.q().retain(|x| *x != t);
        }

        /// Simulated wait. Returns the re-acquired guard and whether the timeout expired.
        fn wait_sim<'a, T>(&self, guard: MutexGuard<'a, T>, timeout: Option<rstd::time::Duration>) -> (real::LockResult<MutexGuard<'a, T>>, bool) {
            use fqcore::__fqsim::{clock, ctl, is_task, TASK_RAND};
            let m = guard.m;
            let ticket = NEXT_TICKET.fetch_add(1, Ordering::SeqCst);
            self.q().push(ticket);
            let deadline = timeout.map(|d| clock(0).unwrap_or(0).saturating_add(d.as_nanos().min(u64::MAX as u128) as u64));
            drop(guard);
            point("sync:condvar_wait");
            let mut timed_out = false;
            loop {
                if !self.q().contains(&ticket) {
                    break; // notified
                }
                if is_task() {
                    // a spurious wake-up is legal for every condition variable
                    if ctl(TASK_RAND, 48) == 47 {
                        self.drop_ticket(ticket);
                        break;
                    }
                    if let Some(dl) = deadline {
                        if clock(0).map(|n| n >= dl).unwrap_or(true) {
                            self.drop_ticket(ticket);
                            timed_out = true;
                            break;
                        }
                    }
                }
                if !blocked("sync:condvar_blocked") {
                    // nobody the scheduler knows can run: wait for a real notification for a moment
                    let g = m.0.lock().unwrap_or_else(|e| e.into_inner());
                    if self.q().contains(&ticket) {
                        let _ = self.real.wait_timeout(g, rstd::time::Duration::from_millis(2));
                    }
                    if !is_task() && timeout.is_some() {
                        // released from the simulation while waiting with a timeout: report a timeout
                        if self.q().contains(&ticket) {
                            self.drop_ticket(ticket);
                            timed_out = true;
                        }
                        break;
                    }
                }
            }
            (m.lock(), timed_out)
        }

        pub fn wait<'a, T>(&self, guard: MutexGuard<'a, T>) -> real::LockResult<MutexGuard<'a, T>> {
            if !fqcore::__fqsim::is_task() {
                let MutexGuard { g, m } = guard;
                return m.wrap(self.real.wait(g));
            }
            self.wait_sim(guard, None).0
        }

        pub fn wait_while<'a, T, F>(&self, mut guard: MutexGuard<'a, T>, mut condition: F) -> real::LockResult<MutexGuard<'a, T>>
        where
            F: FnMut(&mut T) -> bool,
        {
            while condition(&mut *guard) {
                guard = self.wait(guard)?;
            }
            Ok(guard)
        }

        pub fn wait_timeout<'a, T>(&self, guard: MutexGuard<'a, T>, dur: rstd::time::Duration) -> real::LockResult<(MutexGuard<'a, T>, WaitTimeoutResult)> {
            if !fqcore::__fqsim::is_task() {
                let MutexGuard { g, m } = guard;
                return match self.real.wait_timeout(g, dur) {
                    Ok((g, r)) => Ok((MutexGuard { g, m }, WaitTimeoutResult(r.timed_out()))),
                    Err(p) => {
                        let (g, r) = p.into_inner();
                        Err(real::PoisonError::new((MutexGuard { g, m }, WaitTimeoutResult(r.timed_out()))))
                    }
                };
            }
            let (r, t) = self.wait_sim(guard, Some(dur));
            match r {
                Ok(g) => Ok((g, WaitTimeoutResult(t))),
                Err(p) => Err(real::PoisonError::new((p.into_inner(), WaitTimeoutResult(t)))),
            }
        }

        pub fn wait_timeout_while<'a, T, F>(
            &self,
            mut guard: MutexGuard<'a, T>,
            dur: rstd::time::Duration,
            mut condition: F,
        ) -> real::LockResult<(MutexGuard<'a, T>, WaitTimeoutResult)>
        where
            F: FnMut(&mut T) -> bool,
        {
            let start = crate::time::Instant::now();
            loop {
                if !condition(&mut *guard) {
                    return Ok((guard, WaitTimeoutResult(false)));
                }
                let left = match dur.checked_sub(start.elapsed()) {
                    Some(l) => l,
                    None => return Ok((guard, WaitTimeoutResult(true))),
                };
                guard = match self.wait_timeout(guard, left) {
                    Ok((g, _)) => g,
                    Err(p) => {
                        let (g, r) = p.into_inner();
                        return Err(real::PoisonError::new((g, r)));
                    }
                };
            }
        }

        pub fn notify_one(&self) {
            point("sync:condvar_notify");
            {
                let mut q = self.q();
                if !q.is_empty() {
                    // which waiter wakes is unspecified: a seeded choice
                    let i = fqcore::__fqsim::ctl(fqcore::__fqsim::TASK_RAND, q.len() as u64) as usize;
                    let i = i.min(q.len() - 1);
                    q.remove(i);
                }
            }
            self.real.notify_one();
        }

        pub fn notify_all(&self) {
            point("sync:condvar_notify");
            self.q().clear();
            self.real.notify_all();
        }
    }

    impl Default for Condvar {
        fn default() -> Self {
            Condvar::new()
        }
    }
    impl fmt::Debug for Condvar {
        fn fmt(&self, f: &mut fmt::Formatter<'_>) -> fmt::Result {
            f.debug_struct("Condvar").finish_non_exhaustive()
        }
    }

    // ---------------------------------------------------------------- Barrier
    pub struct Barrier {
        n: usize,
        state: real::Mutex<(usize, usize)>,
    }

    pub struct BarrierWaitResult(bool);

    impl BarrierWaitResult {
        #[must_use]
        pub fn is_leader(&self) -> bool {
            self.0
        }
    }
    impl fmt::Debug for BarrierWaitResult {
        fn fmt(&self, f: &mut fmt::Formatter<'_>) -> fmt::Result {
            f.debug_struct("BarrierWaitResult").field("is_leader", &self.0).finish()
        }
    }

    impl Barrier {
        #[inline]
        pub const fn new(n: usize) -> Barrier {
            Barrier { n, state: real::Mutex::new((0, 0)) }
        }
        pub fn wait(&self) -> BarrierWaitResult {
            point("sync:barrier_wait");
            let my_gen;
            {
                let mut st = self.state.lock().unwrap_or_else(|e| e.into_inner());
                st.0 += 1;
                if st.0 >= self.n {
                    st.0 = 0;
                    st.1 = st.1.wrapping_add(1);
                    return BarrierWaitResult(true);
                }
                my_gen = st.1;
            }
            loop {
                if self.state.lock().unwrap_or_else(|e| e.into_inner()).1 != my_gen {
                    return BarrierWaitResult(false);
                }
                if !blocked("sync:barrier_blocked") {
                    rstd::thread::sleep(rstd::time::Duration::from_micros(200));
                }
            }
        }
    }
    impl fmt::Debug for Barrier {
        fn fmt(&self, f: &mut fmt::Formatter<'_>) -> fmt::Result {
            f.debug_struct("Barrier").finish_non_exhaustive()
        }
    }

    // ------------------------------------------------------------------- mpsc
    /// Channels whose blocking operations (`recv`, `recv_timeout`, `send` on a full bounded
    /// channel) are "blocked" scheduling points with timeouts on the simulated clock. The queues
    /// are std's own, except for rendezvous channels (`sync_channel(0)`): std completes such a send
    /// only while a receiver is parked in the kernel, which a polling receiver never is, so the
    /// facade has a small rendezvous channel of its own (same contract: `send` returns once the
    /// value has been taken; `try_send` succeeds only if a receiver is waiting).
    pub mod mpsc {
        pub use rstd::sync::mpsc::{RecvError, RecvTimeoutError, SendError, TryRecvError, TrySendError};

        use fqcore::__fqsim::{blocked, clock, is_task, point};
        use rstd::fmt;
        use rstd::sync::mpsc as real;
        use rstd::time::Duration;

        pub struct Sender<T>(real::Sender<T>);
        pub struct SyncSender<T> {
            real: real::SyncSender<T>,
            /// `sync_channel(0)`: the facade's own rendezvous channel (std's is not used then)
            rv: Option<Arc<Rv<T>>>,
        }
        pub struct Receiver<T> {
            real: real::Receiver<T>,
            rv: Option<Arc<Rv<T>>>,
        }

        pub fn channel<T>() -> (Sender<T>, Receiver<T>) {
            let (s, r) = real::channel();
            (Sender(s), Receiver { real: r, rv: None })
        }

        pub fn sync_channel<T>(bound: usize) -> (SyncSender<T>, Receiver<T>) {
            if bound == 0 {
                // std's rendezvous channel completes a send only while a receiver is parked in
                // the kernel, which a polling receiver never is: the facade brings its own
                let rv = Arc::new(Rv {
                    st: rstd::sync::Mutex::new(RvState { item: None, gen: 0, receivers_waiting: 0, senders: 1, receiver_alive: true }),
                    cv: rstd::sync::Condvar::new(),
                });
                let (s, r) = real::sync_channel(1);
                return (SyncSender { real: s, rv: Some(rv.clone()) }, Receiver { real: r, rv: Some(rv) });
            }
            let (s, r) = real::sync_channel(bound);
            (SyncSender { real: s, rv: None }, Receiver { real: r, rv: None })
        }

        use rstd::sync::Arc;

        struct RvState<T> {
            /// the value in flight (placed by a sender that is now waiting for it to be taken)
            item: Option<T>,
            /// number of hand-overs completed so far
            gen: u64,
            receivers_waiting: usize,
            senders: usize,
            receiver_alive: bool,
        }

        struct Rv<T> {
            st: rstd::sync::Mutex<RvState<T>>,
            cv: rstd::sync::Condvar,
        }

        impl<T> Rv<T> {
            fn lock(&self) -> rstd::sync::MutexGuard<'_, RvState<T>> {
                self.st.lock().unwrap_or_else(|e| e.into_inner())
            }
            /// One round of waiting: under the scheduler for a simulated task, on the real
            /// condition variable (briefly) for any other thread.
            fn pause<'a>(&'a self, g: rstd::sync::MutexGuard<'a, RvState<T>>) -> rstd::sync::MutexGuard<'a, RvState<T>> {
                if is_task() {
                    drop(g);
                    if !blocked("sync:mpsc_rendezvous_blocked") {
                        rstd::thread::sleep(Duration::from_micros(200));
                    }
                    self.lock()
                } else {
                    self.cv.wait_timeout(g, Duration::from_millis(1)).map(|(g, _)| g).unwrap_or_else(|e| e.into_inner().0)
                }
            }
            fn send(&self, t: T) -> Result<(), SendError<T>> {
                point("sync:mpsc_send");
                let mut g = self.lock();
                // wait for the slot (another sender's value may be in flight)
                loop {
                    if !g.receiver_alive {
                        return Err(SendError(t));
                    }
                    if g.item.is_none() {
                        break;
                    }
                    g = self.pause(g);
                }
                g.item = Some(t);
                let my = g.gen;
                self.cv.notify_all();
                // rendezvous: return only once a receiver has taken it
                loop {
                    if g.gen != my {
                        return Ok(());
                    }
                    if !g.receiver_alive {
                        return match g.item.take() {
                            Some(t) => Err(SendError(t)),
                            None => Ok(()),
                        };
                    }
                    g = self.pause(g);
                }
            }
            fn try_send(&self, t: T) -> Result<(), TrySendError<T>> {
                point("sync:mpsc_send");
                let mut g = self.lock();
                if !g.receiver_alive {
                    return Err(TrySendError::Disconnected(t));
                }
                if g.item.is_none() && g.receivers_waiting > 0 {
                    g.item = Some(t);
                    self.cv.notify_all();
                    return Ok(());
                }
                Err(TrySendError::Full(t))
            }
            fn take(&self, g: &mut rstd::sync::MutexGuard<'_, RvState<T>>) -> Option<T> {
                let v = g.item.take();
                if v.is_some() {
                    g.gen = g.gen.wrapping_add(1);
                    self.cv.notify_all();
                }
                v
            }
            fn try_recv(&self) -> Result<T, TryRecvError> {
                point("sync:mpsc_recv");
                let mut g = self.lock();
                match self.take(&mut g) {
                    Some(v) => Ok(v),
                    None if g.senders == 0 => Err(TryRecvError::Disconnected),
                    None => Err(TryRecvError::Empty),
                }
            }
            /// `deadline`: simulated nanoseconds for a task, real time otherwise.
            fn recv(&self, timeout: Option<Duration>) -> Result<T, RecvTimeoutError> {
                point("sync:mpsc_recv");
                let sim_deadline = timeout.and_then(|d| clock(0).map(|n| n.saturating_add(d.as_nanos().min(u64::MAX as u128) as u64)));
                let real_deadline = timeout.map(|d| rstd::time::Instant::now() + d);
                let mut g = self.lock();
                g.receivers_waiting += 1;
                self.cv.notify_all();
                let r = loop {
                    if let Some(v) = self.take(&mut g) {
                        break Ok(v);
                    }
                    if g.senders == 0 {
                        break Err(RecvTimeoutError::Disconnected);
                    }
                    if timeout.is_some() {
                        let expired = match (is_task(), sim_deadline) {
                            (true, Some(dl)) => clock(0).map(|n| n >= dl).unwrap_or(true),
                            _ => real_deadline.map(|d| rstd::time::Instant::now() >= d).unwrap_or(false),
                        };
                        if expired {
                            break Err(RecvTimeoutError::Timeout);
                        }
                    }
                    g = self.pause(g);
                };
                g.receivers_waiting -= 1;
                r
            }
        }

        impl<T> Sender<T> {
            pub fn send(&self, t: T) -> Result<(), SendError<T>> {
                point("sync:mpsc_send");
                self.0.send(t)
            }
        }
        impl<T> Clone for Sender<T> {
            fn clone(&self) -> Self {
                Sender(self.0.clone())
            }
        }
        impl<T> fmt::Debug for Sender<T> {
            fn fmt(&self, f: &mut fmt::Formatter<'_>) -> fmt::Result {
                f.debug_struct("Sender").finish_non_exhaustive()
            }
        }

        impl<T> SyncSender<T> {
            pub fn send(&self, t: T) -> Result<(), SendError<T>> {
                if let Some(rv) = &self.rv {
                    return rv.send(t);
                }
                if !is_task() {
                    point("sync:mpsc_send");
                    return self.real.send(t);
                }
                let mut t = t;
                point("sync:mpsc_send");
                loop {
                    match self.real.try_send(t) {
                        Ok(()) => return Ok(()),
                        Err(TrySendError::Disconnected(v)) => return Err(SendError(v)),
                        Err(TrySendError::Full(v)) => {
                            t = v;
                            if !blocked("sync:mpsc_send_blocked") {
                                return self.real.send(t);
                            }
                        }
                    }
                }
            }
            pub fn try_send(&self, t: T) -> Result<(), TrySendError<T>> {
                if let Some(rv) = &self.rv {
                    return rv.try_send(t);
                }
                point("sync:mpsc_send");
                self.real.try_send(t)
            }
        }
        impl<T> Clone for SyncSender<T> {
            fn clone(&self) -> Self {
                if let Some(rv) = &self.rv {
                    rv.lock().senders += 1;
                }
                SyncSender { real: self.real.clone(), rv: self.rv.clone() }
            }
        }
        impl<T> Drop for SyncSender<T> {
            fn drop(&mut self) {
                if let Some(rv) = &self.rv {
                    let mut g = rv.lock();
                    g.senders = g.senders.saturating_sub(1);
                    rv.cv.notify_all();
                }
            }
        }
        impl<T> Drop for Receiver<T> {
            fn drop(&mut self) {
                if let Some(rv) = &self.rv {
                    rv.lock().receiver_alive = false;
                    rv.cv.notify_all();
                }
            }
        }
        impl<T> fmt::Debug for SyncSender<T> {
            fn fmt(&self, f: &mut fmt::Formatter<'_>) -> fmt::Result {
                f.debug_struct("SyncSender").finish_non_exhaustive()
            }
        }

        impl<T> Receiver<T> {
            pub fn try_recv(&self) -> Result<T, TryRecvError> {
                if let Some(rv) = &self.rv {
                    return rv.try_recv();
                }
                point("sync:mpsc_recv");
                self.real.try_recv()
            }
            pub fn recv(&self) -> Result<T, RecvError> {
                if let Some(rv) = &self.rv {
                    return rv.recv(None).map_err(|_| RecvError);
                }
                if !is_task() {
                    point("sync:mpsc_recv");
                    return self.real.recv();
                }
                point("sync:mpsc_recv");
                loop {
                    match self.real.try_recv() {
                        Ok(v) => return Ok(v),
                        Err(TryRecvError::Disconnected) => return Err(RecvError),
                        Err(TryRecvError::Empty) => {
                            if !blocked("sync:mpsc_recv_blocked") {
                                if !is_task() {
                                    return self.real.recv();
                                }
                                // nobody else is runnable: a free-running thread may still send
                                match self.real.recv_timeout(Duration::from_millis(2)) {
                                    Ok(v) => return Ok(v),
                                    Err(RecvTimeoutError::Disconnected) => return Err(RecvError),
                                    Err(RecvTimeoutError::Timeout) => {}
                                }
                            }
                        }
                    }
                }
            }
            pub fn recv_timeout(&self, timeout: Duration) -> Result<T, RecvTimeoutError> {
                if let Some(rv) = &self.rv {
                    return rv.recv(Some(timeout));
                }
                if !is_task() {
                    point("sync:mpsc_recv");
                    return self.real.recv_timeout(timeout);
                }
                let deadline = clock(0).unwrap_or(0).saturating_add(timeout.as_nanos().min(u64::MAX as u128) as u64);
                point("sync:mpsc_recv");
                loop {
                    match self.real.try_recv() {
                        Ok(v) => return Ok(v),
                        Err(TryRecvError::Disconnected) => return Err(RecvTimeoutError::Disconnected),
                        Err(TryRecvError::Empty) => {}
                    }
                    // the simulated clock moves at every reading: the deadline is reached after a
                    // seeded number of polls, whether or not the other side has been scheduled
                    match clock(0) {
                        Some(now) if now < deadline => {}
                        Some(_) => return Err(RecvTimeoutError::Timeout),
                        None => return self.real.recv_timeout(Duration::from_millis(1)),
                    }
                    if !blocked("sync:mpsc_recv_blocked") {
                        match self.real.recv_timeout(Duration::from_millis(1)) {
                            Ok(v) => return Ok(v),
                            Err(RecvTimeoutError::Disconnected) => return Err(RecvTimeoutError::Disconnected),
                            Err(RecvTimeoutError::Timeout) => {}
                        }
                    }
                }
            }
            pub fn iter(&self) -> Iter<'_, T> {
                Iter { rx: self }
            }
            pub fn try_iter(&self) -> TryIter<'_, T> {
                TryIter { rx: self }
            }
        }
        impl<T> fmt::Debug for Receiver<T> {
            fn fmt(&self, f: &mut fmt::Formatter<'_>) -> fmt::Result {
                f.debug_struct("Receiver").finish_non_exhaustive()
            }
        }

        pub struct Iter<'a, T: 'a> {
            rx: &'a Receiver<T>,
        }
        impl<T> Iterator for Iter<'_, T> {
            type Item = T;
            fn next(&mut self) -> Option<T> {
                self.rx.recv().ok()
            }
        }
        pub struct TryIter<'a, T: 'a> {
            rx: &'a Receiver<T>,
        }
        impl<T> Iterator for TryIter<'_, T> {
            type Item = T;
            fn next(&mut self) -> Option<T> {
                self.rx.try_recv().ok()
            }
        }
        pub struct IntoIter<T> {
            rx: Receiver<T>,
        }
        impl<T> Iterator for IntoIter<T> {
            type Item = T;
            fn next(&mut self) -> Option<T> {
                self.rx.recv().ok()
            }
        }
        impl<T> IntoIterator for Receiver<T> {
            type Item = T;
            type IntoIter = IntoIter<T>;
            fn into_iter(self) -> IntoIter<T> {
                IntoIter { rx: self }
            }
        }
        impl<'a, T> IntoIterator for &'a Receiver<T> {
            type Item = T;
            type IntoIter = Iter<'a, T>;
            fn into_iter(self) -> Iter<'a, T> {
                self.iter()
            }
        }
    }

    // ----------------------------------------------------------------- RwLock
    pub struct RwLock<T: ?Sized>(real::RwLock<T>);

    impl<T> RwLock<T> {
        #[inline]
        pub const fn new(t: T) -> RwLock<T> {
            RwLock(real::RwLock::new(t))
        }
        pub fn into_inner(self) -> real::LockResult<T> {
            self.0.into_inner()
        }
    }

    impl<T: ?Sized> RwLock<T> {
        pub fn read(&self) -> real::LockResult<real::RwLockReadGuard<'_, T>> {
            point("sync:rwlock_read");
            loop {
                match self.0.try_read() {
                    Ok(g) => return Ok(g),
                    Err(real::TryLockError::Poisoned(p)) => return Err(p),
                    Err(real::TryLockError::WouldBlock) => {
                        if !blocked("sync:rwlock_blocked") {
                            return self.0.read();
                        }
                    }
                }
            }
        }
        pub fn write(&self) -> real::LockResult<real::RwLockWriteGuard<'_, T>> {
            point("sync:rwlock_write");
            loop {
                match self.0.try_write() {
                    Ok(g) => return Ok(g),
                    Err(real::TryLockError::Poisoned(p)) => return Err(p),
                    Err(real::TryLockError::WouldBlock) => {
                        if !blocked("sync:rwlock_blocked") {
                            return self.0.write();
                        }
                    }
                }
            }
        }
        pub fn try_read(&self) -> real::TryLockResult<real::RwLockReadGuard<'_, T>> {
            point("sync:rwlock_try_read");
            self.0.try_read()
        }
        pub fn try_write(&self) -> real::TryLockResult<real::RwLockWriteGuard<'_, T>> {
            point("sync:rwlock_try_write");
            self.0.try_write()
        }
        pub fn is_poisoned(&self) -> bool {
            self.0.is_poisoned()
        }
        pub fn clear_poison(&self) {
            self.0.clear_poison()
        }
        pub fn get_mut(&mut self) -> real::LockResult<&mut T> {
            self.0.get_mut()
        }
    }

    impl<T> From<T> for RwLock<T> {
        fn from(t: T) -> Self {
            RwLock::new(t)
        }
    }
    impl<T: Default> Default for RwLock<T> {
        fn default() -> Self {
            RwLock::new(T::default())
        }
    }
    impl<T: ?Sized + fmt::Debug> fmt::Debug for RwLock<T> {
        fn fmt(&self, f: &mut fmt::Formatter<'_>) -> fmt::Result {
            fmt::Debug::fmt(&self.0, f)
        }
    }

    // ------------------------------------------------------------------- Once
    const INCOMPLETE: u8 = 0;
    const RUNNING: u8 = 1;
    const COMPLETE: u8 = 2;
    const POISONED: u8 = 3;

    /// Same contract as `std::sync::Once`; waiting for a running initialiser is a
    /// "blocked" scheduling point instead of a futex wait.
    pub struct Once {
        state: AtomicU8,
    }

    pub struct OnceState {
        poisoned: bool,
    }

    impl OnceState {
        pub fn is_poisoned(&self) -> bool {
            self.poisoned
        }
    }

    struct Finish<'a> {
        state: &'a AtomicU8,
        to: u8,
    }
    impl Drop for Finish<'_> {
        fn drop(&mut self) {
            self.state.store(self.to, Ordering::SeqCst);
        }
    }

    impl Once {
        #[inline]
        pub const fn new() -> Once {
            Once { state: AtomicU8::new(INCOMPLETE) }
        }

        pub fn is_completed(&self) -> bool {
            // COMPLETE is final: observing it commutes with every other operation, so it
            // needs no scheduling point; anything else races with an initialiser and does
            if self.state.load(Ordering::SeqCst) == COMPLETE {
                return true;
            }
            point("sync:once_check");
            self.state.load(Ordering::SeqCst) == COMPLETE
        }

        fn run(&self, ignore_poison: bool, f: &mut dyn FnMut(&OnceState)) {
            point("sync:once_call");
            loop {
                match self.state.load(Ordering::SeqCst) {
                    COMPLETE => return,
                    POISONED if !ignore_poison => panic!("Once instance has previously been poisoned"),
                    s @ (INCOMPLETE | POISONED) => {
                        if self.state.compare_exchange(s, RUNNING, Ordering::SeqCst, Ordering::SeqCst).is_ok() {
                            // poisoned unless the closure returns normally
                            let mut fin = Finish { state: &self.state, to: POISONED };
                            f(&OnceState { poisoned: s == POISONED });
                            fin.to = COMPLETE;
                            drop(fin);
                            return;
                        }
                    }
                    _running => {
                        if !blocked("sync:once_blocked") {
                            rstd::thread::yield_now();
                        }
                    }
                }
            }
        }

        pub fn call_once<F: FnOnce()>(&self, f: F) {
            if self.state.load(Ordering::SeqCst) == COMPLETE {
                return;
            }
            let mut f = Some(f);
            self.run(false, &mut |_| (f.take().unwrap())());
        }

        pub fn call_once_force<F: FnOnce(&OnceState)>(&self, f: F) {
            if self.state.load(Ordering::SeqCst) == COMPLETE {
                return;
            }
            let mut f = Some(f);
            self.run(true, &mut |s| (f.take().unwrap())(s));
        }
    }

    impl fmt::Debug for Once {
        fn fmt(&self, f: &mut fmt::Formatter<'_>) -> fmt::Result {
            f.debug_struct("Once").finish_non_exhaustive()
        }
    }
    impl UnwindSafe for Once {}
    impl RefUnwindSafe for Once {}

    // --------------------------------------------------------------- OnceLock
    pub struct OnceLock<T> {
        once: Once,
        value: UnsafeCell<MaybeUninit<T>>,
    }

    unsafe impl<T: Sync + Send> Sync for OnceLock<T> {}
    unsafe impl<T: Send> Send for OnceLock<T> {}
    impl<T: RefUnwindSafe + UnwindSafe> RefUnwindSafe for OnceLock<T> {}
    impl<T: UnwindSafe> UnwindSafe for OnceLock<T> {}

    impl<T> OnceLock<T> {
        #[inline]
        pub const fn new() -> OnceLock<T> {
            OnceLock { once: Once::new(), value: UnsafeCell::new(MaybeUninit::uninit()) }
        }

        fn is_init(&self) -> bool {
            self.once.state.load(Ordering::SeqCst) == COMPLETE
        }

        pub fn get(&self) -> Option<&T> {
            if !self.is_init() {
                // racing with a possible initialiser: a scheduling point, then look again
                point("sync:oncelock_get");
            }
            if self.is_init() {
                // SAFETY: COMPLETE is stored only after the value was written.
                Some(unsafe { (*self.value.get()).assume_init_ref() })
            } else {
                None
            }
        }

        pub fn get_mut(&mut self) -> Option<&mut T> {
            if self.is_init() {
                Some(unsafe { (*self.value.get()).assume_init_mut() })
            } else {
                None
            }
        }

        pub fn set(&self, value: T) -> Result<(), T> {
            let mut value = Some(value);
            self.get_or_init(|| value.take().unwrap());
            match value {
                None => Ok(()),
                Some(v) => Err(v),
            }
        }

        pub fn get_or_init<F: FnOnce() -> T>(&self, f: F) -> &T {
            if !self.is_init() {
                let slot = self.value.get();
                let mut f = Some(f);
                // not `_force`: like std, a panicking initialiser leaves the cell empty and usable
                self.once.run(true, &mut |_| {
                    let v = (f.take().unwrap())();
                    // SAFETY: we are the only initialiser (state RUNNING).
                    unsafe { (*slot).write(v) };
                });
            }
            unsafe { (*self.value.get()).assume_init_ref() }
        }

        pub fn into_inner(mut self) -> Option<T> {
            self.take()
        }

        pub fn take(&mut self) -> Option<T> {
            if self.is_init() {
                self.once = Once::new();
                // SAFETY: was initialised, and the state is reset so it is not dropped twice.
                Some(unsafe { (*self.value.get()).assume_init_read() })
            } else {
                None
            }
        }
    }

    impl<T> Drop for OnceLock<T> {
        fn drop(&mut self) {
            if self.is_init() {
                unsafe { (*self.value.get()).assume_init_drop() };
            }
        }
    }
    impl<T> Default for OnceLock<T> {
        fn default() -> Self {
            OnceLock::new()
        }
    }
    impl<T: fmt::Debug> fmt::Debug for OnceLock<T> {
        fn fmt(&self, f: &mut fmt::Formatter<'_>) -> fmt::Result {
            let mut d = f.debug_tuple("OnceLock");
            if self.is_init() {
                d.field(unsafe { (*self.value.get()).assume_init_ref() });
            } else {
                d.field(&format_args!("<uninit>"));
            }
            d.finish()
        }
    }
    impl<T: Clone> Clone for OnceLock<T> {
        fn clone(&self) -> Self {
            let c = OnceLock::new();
            if let Some(v) = self.get() {
                let _ = c.set(v.clone());
            }
            c
        }
    }
    impl<T> From<T> for OnceLock<T> {
        fn from(v: T) -> Self {
            let c = OnceLock::new();
            let _ = c.set(v);
            c
        }
    }

    // --------------------------------------------------------------- LazyLock
    pub struct LazyLock<T, F = fn() -> T> {
        cell: OnceLock<T>,
        init: UnsafeCell<Option<F>>,
    }

    unsafe impl<T: Sync + Send, F: Send> Sync for LazyLock<T, F> {}
    impl<T: RefUnwindSafe + UnwindSafe, F: UnwindSafe> RefUnwindSafe for LazyLock<T, F> {}
    impl<T: UnwindSafe, F: UnwindSafe> UnwindSafe for LazyLock<T, F> {}

    impl<T, F: FnOnce() -> T> LazyLock<T, F> {
        #[inline]
        pub const fn new(f: F) -> LazyLock<T, F> {
            LazyLock { cell: OnceLock::new(), init: UnsafeCell::new(Some(f)) }
        }

        pub fn force(this: &LazyLock<T, F>) -> &T {
            this.cell.get_or_init(|| {
                // SAFETY: only the single running initialiser reaches this closure.
                match unsafe { (*this.init.get()).take() } {
                    Some(f) => f(),
                    None => panic!("LazyLock instance has previously been poisoned"),
                }
            })
        }
    }

    impl<T, F: FnOnce() -> T> Deref for LazyLock<T, F> {
        type Target = T;
        fn deref(&self) -> &T {
            LazyLock::force(self)
        }
    }
    impl<T: Default> Default for LazyLock<T> {
        fn default() -> Self {
            LazyLock::new(T::default)
        }
    }
    impl<T: fmt::Debug, F> fmt::Debug for LazyLock<T, F> {
        fn fmt(&self, f: &mut fmt::Formatter<'_>) -> fmt::Result {
            f.debug_tuple("LazyLock").field(&self.cell).finish()
        }
    }
}
