//! A facade over `std`, used only for the simulation build of `fast_qr`: the
//! shadow manifest names this crate `std`, so every `std::...` path (and the
//! implicit prelude) in the crate under test resolves here. Everything is
//! re-exported unchanged except the blocking/shared-state primitives of
//! `std::sync`, which become scheduling points of the simulator:
//!
//! * before every lock / unlock-visible operation the simulator's hook runs;
//! * acquiring never blocks in the kernel while the caller holds the
//!   scheduler's baton: it is `try_*` in a loop, and a failed attempt tells the
//!   scheduler "blocked — run somebody else";
//! * on threads that are not simulated tasks everything degrades to the real
//!   blocking behaviour.
//!
//! Lock guards, `LockResult`, poisoning, `Arc`, `Condvar`, `mpsc`, `Barrier`
//! are std's own types, so semantics other than *who runs next* are std's.
#![no_std]
#![allow(clippy::new_without_default)]

extern crate std as rstd;

pub use rstd::*;

/// `std::time` on a simulated clock: for a simulated task, `now()` is a fixed base plus the
/// simulator's clock, which jumps forward by seeded amounts (microseconds to days) at every
/// reading; `SystemTime` may additionally be skewed and step backwards, as wall clocks do.
/// Any other thread reads the real clock.
pub mod time {
    pub use rstd::time::{Duration, SystemTimeError, TryFromFloatSecsError};

    use fqcore::__fqsim::clock;
    use rstd::ops::{Add, AddAssign, Sub, SubAssign};
    use rstd::sync::OnceLock;
    use rstd::time as real;

    static BASE: OnceLock<real::Instant> = OnceLock::new();

    #[derive(Copy, Clone, PartialEq, Eq, PartialOrd, Ord, Hash)]
    pub struct Instant(real::Instant);

    impl Instant {
        pub fn now() -> Instant {
            match clock(0) {
                Some(ns) => Instant(*BASE.get_or_init(real::Instant::now) + Duration::from_nanos(ns)),
                None => Instant(real::Instant::now()),
            }
        }
        pub fn duration_since(&self, earlier: Instant) -> Duration {
            self.0.duration_since(earlier.0)
        }
        pub fn checked_duration_since(&self, earlier: Instant) -> Option<Duration> {
            self.0.checked_duration_since(earlier.0)
        }
        pub fn saturating_duration_since(&self, earlier: Instant) -> Duration {
            self.0.saturating_duration_since(earlier.0)
        }
        pub fn elapsed(&self) -> Duration {
            Instant::now().0.saturating_duration_since(self.0)
        }
        pub fn checked_add(&self, d: Duration) -> Option<Instant> {
            self.0.checked_add(d).map(Instant)
        }
        pub fn checked_sub(&self, d: Duration) -> Option<Instant> {
            self.0.checked_sub(d).map(Instant)
        }
    }
    impl Add<Duration> for Instant {
        type Output = Instant;
        fn add(self, d: Duration) -> Instant {
            Instant(self.0 + d)
        }
    }
    impl AddAssign<Duration> for Instant {
        fn add_assign(&mut self, d: Duration) {
            self.0 += d;
        }
    }
    impl Sub<Duration> for Instant {
        type Output = Instant;
        fn sub(self, d: Duration) -> Instant {
            Instant(self.0 - d)
        }
    }
    impl SubAssign<Duration> for Instant {
        fn sub_assign(&mut self, d: Duration) {
            self.0 -= d;
        }
    }
    impl Sub<Instant> for Instant {
        type Output = Duration;
        fn sub(self, o: Instant) -> Duration {
            self.0.saturating_duration_since(o.0)
        }
    }
    impl rstd::fmt::Debug for Instant {
        fn fmt(&self, f: &mut rstd::fmt::Formatter<'_>) -> rstd::fmt::Result {
            rstd::fmt::Debug::fmt(&self.0, f)
        }
    }

    /// 2027-01-15: a fixed origin for simulated wall-clock time.
    const SIM_EPOCH_SECS: u64 = 1_800_000_000;

    #[derive(Copy, Clone, PartialEq, Eq, PartialOrd, Ord, Hash)]
    pub struct SystemTime(real::SystemTime);

    pub const UNIX_EPOCH: SystemTime = SystemTime(real::UNIX_EPOCH);

    impl SystemTime {
        pub const UNIX_EPOCH: SystemTime = SystemTime(real::UNIX_EPOCH);

        pub fn now() -> SystemTime {
            match clock(0) {
                Some(ns) => {
                    // wall clocks are not monotonic: a skew derived from the reading itself
                    // occasionally steps the result back by up to ~2 s
                    let skew_back = if ns % 7 == 3 { (ns / 7) % 2_000_000_000 } else { 0 };
                    let t = real::UNIX_EPOCH + Duration::from_secs(SIM_EPOCH_SECS) + Duration::from_nanos(ns);
                    SystemTime(t - Duration::from_nanos(skew_back))
                }
                None => SystemTime(real::SystemTime::now()),
            }
        }
        pub fn duration_since(&self, earlier: SystemTime) -> Result<Duration, SystemTimeError> {
            self.0.duration_since(earlier.0)
        }
        pub fn elapsed(&self) -> Result<Duration, SystemTimeError> {
            SystemTime::now().0.duration_since(self.0)
        }
        pub fn checked_add(&self, d: Duration) -> Option<SystemTime> {
            self.0.checked_add(d).map(SystemTime)
        }
        pub fn checked_sub(&self, d: Duration) -> Option<SystemTime> {
            self.0.checked_sub(d).map(SystemTime)
        }
    }
    impl Add<Duration> for SystemTime {
        type Output = SystemTime;
        fn add(self, d: Duration) -> SystemTime {
            SystemTime(self.0 + d)
        }
    }
    impl AddAssign<Duration> for SystemTime {
        fn add_assign(&mut self, d: Duration) {
            self.0 += d;
        }
    }
    impl Sub<Duration> for SystemTime {
        type Output = SystemTime;
        fn sub(self, d: Duration) -> SystemTime {
            SystemTime(self.0 - d)
        }
    }
    impl SubAssign<Duration> for SystemTime {
        fn sub_assign(&mut self, d: Duration) {
            self.0 -= d;
        }
    }
    impl rstd::fmt::Debug for SystemTime {
        fn fmt(&self, f: &mut rstd::fmt::Formatter<'_>) -> rstd::fmt::Result {
            rstd::fmt::Debug::fmt(&self.0, f)
        }
    }
    impl From<SystemTime> for real::SystemTime {
        fn from(t: SystemTime) -> real::SystemTime {
            t.0
        }
    }
}

/// `std::thread` with `sleep` on the simulated clock and `yield_now` as a scheduling point.
pub mod thread {
    pub use rstd::thread::*;

    pub fn sleep(d: rstd::time::Duration) {
        let ns = d.as_nanos().min(u64::MAX as u128) as u64;
        if fqcore::__fqsim::clock(ns.max(1)).is_some() {
            // simulated time has advanced by `d`; let somebody else run, as a real sleep would
            fqcore::__fqsim::point("sync:sleep");
        } else {
            rstd::thread::sleep(d);
        }
    }

    pub fn yield_now() {
        fqcore::__fqsim::point("sync:yield_now");
        rstd::thread::yield_now();
    }
}

pub mod sync {
    pub use rstd::sync::*;

    /// `std::sync::atomic` with every access a scheduling point.
    pub mod atomic {
        pub use fqcore::sync::atomic::*;
    }

    use fqcore::__fqsim::{blocked, point};
    use rstd::cell::UnsafeCell;
    use rstd::fmt;
    use rstd::mem::MaybeUninit;
    use rstd::ops::Deref;
    use rstd::panic::{RefUnwindSafe, UnwindSafe};
    use rstd::sync as real;
    use rstd::sync::atomic::{AtomicU8, Ordering};

    // ------------------------------------------------------------------ Mutex
    pub struct Mutex<T: ?Sized>(real::Mutex<T>);

    impl<T> Mutex<T> {
        #[inline]
        pub const fn new(t: T) -> Mutex<T> {
            Mutex(real::Mutex::new(t))
        }
        pub fn into_inner(self) -> real::LockResult<T> {
            self.0.into_inner()
        }
    }

    impl<T: ?Sized> Mutex<T> {
        pub fn lock(&self) -> real::LockResult<real::MutexGuard<'_, T>> {
            loop {
                point("sync:mutex_lock");
                match self.0.try_lock() {
                    Ok(g) => return Ok(g),
                    Err(real::TryLockError::Poisoned(p)) => return Err(p),
                    Err(real::TryLockError::WouldBlock) => {
                        if !blocked("sync:mutex_blocked") {
                            return self.0.lock();
                        }
                    }
                }
            }
        }
        pub fn try_lock(&self) -> real::TryLockResult<real::MutexGuard<'_, T>> {
            point("sync:mutex_try_lock");
            self.0.try_lock()
        }
        pub fn is_poisoned(&self) -> bool {
            self.0.is_poisoned()
        }
        pub fn clear_poison(&self) {
            self.0.clear_poison()
        }
        pub fn get_mut(&mut self) -> real::LockResult<&mut T> {
            self.0.get_mut()
        }
    }

    impl<T> From<T> for Mutex<T> {
        fn from(t: T) -> Self {
            Mutex::new(t)
        }
    }
    impl<T: Default> Default for Mutex<T> {
        fn default() -> Self {
            Mutex::new(T::default())
        }
    }
    impl<T: ?Sized + fmt::Debug> fmt::Debug for Mutex<T> {
        fn fmt(&self, f: &mut fmt::Formatter<'_>) -> fmt::Result {
            fmt::Debug::fmt(&self.0, f)
        }
    }

    // ----------------------------------------------------------------- RwLock
    pub struct RwLock<T: ?Sized>(real::RwLock<T>);

    impl<T> RwLock<T> {
        #[inline]
        pub const fn new(t: T) -> RwLock<T> {
            RwLock(real::RwLock::new(t))
        }
        pub fn into_inner(self) -> real::LockResult<T> {
            self.0.into_inner()
        }
    }

    impl<T: ?Sized> RwLock<T> {
        pub fn read(&self) -> real::LockResult<real::RwLockReadGuard<'_, T>> {
            loop {
                point("sync:rwlock_read");
                match self.0.try_read() {
                    Ok(g) => return Ok(g),
                    Err(real::TryLockError::Poisoned(p)) => return Err(p),
                    Err(real::TryLockError::WouldBlock) => {
                        if !blocked("sync:rwlock_blocked") {
                            return self.0.read();
                        }
                    }
                }
            }
        }
        pub fn write(&self) -> real::LockResult<real::RwLockWriteGuard<'_, T>> {
            loop {
                point("sync:rwlock_write");
                match self.0.try_write() {
                    Ok(g) => return Ok(g),
                    Err(real::TryLockError::Poisoned(p)) => return Err(p),
                    Err(real::TryLockError::WouldBlock) => {
                        if !blocked("sync:rwlock_blocked") {
                            return self.0.write();
                        }
                    }
                }
            }
        }
        pub fn try_read(&self) -> real::TryLockResult<real::RwLockReadGuard<'_, T>> {
            point("sync:rwlock_try_read");
            self.0.try_read()
        }
        pub fn try_write(&self) -> real::TryLockResult<real::RwLockWriteGuard<'_, T>> {
            point("sync:rwlock_try_write");
            self.0.try_write()
        }
        pub fn is_poisoned(&self) -> bool {
            self.0.is_poisoned()
        }
        pub fn clear_poison(&self) {
            self.0.clear_poison()
        }
        pub fn get_mut(&mut self) -> real::LockResult<&mut T> {
            self.0.get_mut()
        }
    }

    impl<T> From<T> for RwLock<T> {
        fn from(t: T) -> Self {
            RwLock::new(t)
        }
    }
    impl<T: Default> Default for RwLock<T> {
        fn default() -> Self {
            RwLock::new(T::default())
        }
    }
    impl<T: ?Sized + fmt::Debug> fmt::Debug for RwLock<T> {
        fn fmt(&self, f: &mut fmt::Formatter<'_>) -> fmt::Result {
            fmt::Debug::fmt(&self.0, f)
        }
    }

    // ------------------------------------------------------------------- Once
    const INCOMPLETE: u8 = 0;
    const RUNNING: u8 = 1;
    const COMPLETE: u8 = 2;
    const POISONED: u8 = 3;

    /// Same contract as `std::sync::Once`; waiting for a running initialiser is a
    /// "blocked" scheduling point instead of a futex wait.
    pub struct Once {
        state: AtomicU8,
    }

    pub struct OnceState {
        poisoned: bool,
    }

    impl OnceState {
        pub fn is_poisoned(&self) -> bool {
            self.poisoned
        }
    }

    struct Finish<'a> {
        state: &'a AtomicU8,
        to: u8,
    }
    impl Drop for Finish<'_> {
        fn drop(&mut self) {
            self.state.store(self.to, Ordering::SeqCst);
        }
    }

    impl Once {
        #[inline]
        pub const fn new() -> Once {
            Once { state: AtomicU8::new(INCOMPLETE) }
        }

        pub fn is_completed(&self) -> bool {
            // COMPLETE is final: observing it commutes with every other operation, so it
            // needs no scheduling point; anything else races with an initialiser and does
            if self.state.load(Ordering::SeqCst) == COMPLETE {
                return true;
            }
            point("sync:once_check");
            self.state.load(Ordering::SeqCst) == COMPLETE
        }

        fn run(&self, ignore_poison: bool, f: &mut dyn FnMut(&OnceState)) {
            loop {
                point("sync:once_call");
                match self.state.load(Ordering::SeqCst) {
                    COMPLETE => return,
                    POISONED if !ignore_poison => panic!("Once instance has previously been poisoned"),
                    s @ (INCOMPLETE | POISONED) => {
                        if self.state.compare_exchange(s, RUNNING, Ordering::SeqCst, Ordering::SeqCst).is_ok() {
                            // poisoned unless the closure returns normally
                            let mut fin = Finish { state: &self.state, to: POISONED };
                            f(&OnceState { poisoned: s == POISONED });
                            fin.to = COMPLETE;
                            drop(fin);
                            return;
                        }
                    }
                    _running => {
                        if !blocked("sync:once_blocked") {
                            rstd::thread::yield_now();
                        }
                    }
                }
            }
        }

        pub fn call_once<F: FnOnce()>(&self, f: F) {
            if self.state.load(Ordering::SeqCst) == COMPLETE {
                return;
            }
            let mut f = Some(f);
            self.run(false, &mut |_| (f.take().unwrap())());
        }

        pub fn call_once_force<F: FnOnce(&OnceState)>(&self, f: F) {
            if self.state.load(Ordering::SeqCst) == COMPLETE {
                return;
            }
            let mut f = Some(f);
            self.run(true, &mut |s| (f.take().unwrap())(s));
        }
    }

    impl fmt::Debug for Once {
        fn fmt(&self, f: &mut fmt::Formatter<'_>) -> fmt::Result {
            f.debug_struct("Once").finish_non_exhaustive()
        }
    }
    impl UnwindSafe for Once {}
    impl RefUnwindSafe for Once {}

    // --------------------------------------------------------------- OnceLock
    pub struct OnceLock<T> {
        once: Once,
        value: UnsafeCell<MaybeUninit<T>>,
    }

    unsafe impl<T: Sync + Send> Sync for OnceLock<T> {}
    unsafe impl<T: Send> Send for OnceLock<T> {}
    impl<T: RefUnwindSafe + UnwindSafe> RefUnwindSafe for OnceLock<T> {}
    impl<T: UnwindSafe> UnwindSafe for OnceLock<T> {}

    impl<T> OnceLock<T> {
        #[inline]
        pub const fn new() -> OnceLock<T> {
            OnceLock { once: Once::new(), value: UnsafeCell::new(MaybeUninit::uninit()) }
        }

        fn is_init(&self) -> bool {
            self.once.state.load(Ordering::SeqCst) == COMPLETE
        }

        pub fn get(&self) -> Option<&T> {
            if !self.is_init() {
                // racing with a possible initialiser: a scheduling point, then look again
                point("sync:oncelock_get");
            }
            if self.is_init() {
                // SAFETY: COMPLETE is stored only after the value was written.
                Some(unsafe { (*self.value.get()).assume_init_ref() })
            } else {
                None
            }
        }

        pub fn get_mut(&mut self) -> Option<&mut T> {
            if self.is_init() {
                Some(unsafe { (*self.value.get()).assume_init_mut() })
            } else {
                None
            }
        }

        pub fn set(&self, value: T) -> Result<(), T> {
            let mut value = Some(value);
            self.get_or_init(|| value.take().unwrap());
            match value {
                None => Ok(()),
                Some(v) => Err(v),
            }
        }

        pub fn get_or_init<F: FnOnce() -> T>(&self, f: F) -> &T {
            if !self.is_init() {
                let slot = self.value.get();
                let mut f = Some(f);
                // not `_force`: like std, a panicking initialiser leaves the cell empty and usable
                self.once.run(true, &mut |_| {
                    let v = (f.take().unwrap())();
                    // SAFETY: we are the only initialiser (state RUNNING).
                    unsafe { (*slot).write(v) };
                });
            }
            unsafe { (*self.value.get()).assume_init_ref() }
        }

        pub fn into_inner(mut self) -> Option<T> {
            self.take()
        }

        pub fn take(&mut self) -> Option<T> {
            if self.is_init() {
                self.once = Once::new();
                // SAFETY: was initialised, and the state is reset so it is not dropped twice.
                Some(unsafe { (*self.value.get()).assume_init_read() })
            } else {
                None
            }
        }
    }

    impl<T> Drop for OnceLock<T> {
        fn drop(&mut self) {
            if self.is_init() {
                unsafe { (*self.value.get()).assume_init_drop() };
            }
        }
    }
    impl<T> Default for OnceLock<T> {
        fn default() -> Self {
            OnceLock::new()
        }
    }
    impl<T: fmt::Debug> fmt::Debug for OnceLock<T> {
        fn fmt(&self, f: &mut fmt::Formatter<'_>) -> fmt::Result {
            let mut d = f.debug_tuple("OnceLock");
            if self.is_init() {
                d.field(unsafe { (*self.value.get()).assume_init_ref() });
            } else {
                d.field(&format_args!("<uninit>"));
            }
            d.finish()
        }
    }
    impl<T: Clone> Clone for OnceLock<T> {
        fn clone(&self) -> Self {
            let c = OnceLock::new();
            if let Some(v) = self.get() {
                let _ = c.set(v.clone());
            }
            c
        }
    }
    impl<T> From<T> for OnceLock<T> {
        fn from(v: T) -> Self {
            let c = OnceLock::new();
            let _ = c.set(v);
            c
        }
    }

    // --------------------------------------------------------------- LazyLock
    pub struct LazyLock<T, F = fn() -> T> {
        cell: OnceLock<T>,
        init: UnsafeCell<Option<F>>,
    }

    unsafe impl<T: Sync + Send, F: Send> Sync for LazyLock<T, F> {}
    impl<T: RefUnwindSafe + UnwindSafe, F: UnwindSafe> RefUnwindSafe for LazyLock<T, F> {}
    impl<T: UnwindSafe, F: UnwindSafe> UnwindSafe for LazyLock<T, F> {}

    impl<T, F: FnOnce() -> T> LazyLock<T, F> {
        #[inline]
        pub const fn new(f: F) -> LazyLock<T, F> {
            LazyLock { cell: OnceLock::new(), init: UnsafeCell::new(Some(f)) }
        }

        pub fn force(this: &LazyLock<T, F>) -> &T {
            this.cell.get_or_init(|| {
                // SAFETY: only the single running initialiser reaches this closure.
                match unsafe { (*this.init.get()).take() } {
                    Some(f) => f(),
                    None => panic!("LazyLock instance has previously been poisoned"),
                }
            })
        }
    }

    impl<T, F: FnOnce() -> T> Deref for LazyLock<T, F> {
        type Target = T;
        fn deref(&self) -> &T {
            LazyLock::force(self)
        }
    }
    impl<T: Default> Default for LazyLock<T> {
        fn default() -> Self {
            LazyLock::new(T::default)
        }
    }
    impl<T: fmt::Debug, F> fmt::Debug for LazyLock<T, F> {
        fn fmt(&self, f: &mut fmt::Formatter<'_>) -> fmt::Result {
            f.debug_tuple("LazyLock").field(&self.cell).finish()
        }
    }
}
