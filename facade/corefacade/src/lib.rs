//! A facade over `core`, used only for the simulation build of `fast_qr`
//! (never for shipped code): the shadow manifest names this crate `core`, so
//! every `core::...` path in the crate under test resolves here. Everything is
//! re-exported unchanged except `core::sync::atomic::Atomic*`, whose every
//! access first calls the simulator's hook — a scheduling point exactly where
//! shared state is touched.
#![no_std]
#![allow(clippy::missing_safety_doc)]

extern crate core as rcore;

pub use rcore::*;

/// The seam between the facades and the simulator (not part of `core`).
#[doc(hidden)]
pub mod __fqsim {
    use rcore::sync::atomic::{AtomicUsize, Ordering};

    /// `hook(site, blocked) -> yielded`. `blocked == true` means the caller could not
    /// make progress (lock held by a descheduled task) and must not be chosen again
    /// immediately. Returns false if the calling thread is not a simulated task.
    pub type Hook = fn(&'static str, bool) -> bool;

    static HOOK: AtomicUsize = AtomicUsize::new(0);

    pub fn install(h: Hook) {
        HOOK.store(h as usize, Ordering::SeqCst);
    }

    #[inline]
    pub fn point(site: &'static str) {
        let p = HOOK.load(Ordering::Relaxed);
        if p != 0 {
            // SAFETY: only `install` stores here, and only valid `Hook` pointers.
            let h: Hook = unsafe { rcore::mem::transmute::<usize, Hook>(p) };
            h(site, false);
        }
    }

    /// `clock(sleep_ns) -> Some(simulated nanoseconds since the episode began)` for a simulated
    /// task, `None` for any other thread (which then reads the real clock). A non-zero
    /// `sleep_ns` advances simulated time by that much first (`thread::sleep`).
    pub type Clock = fn(u64) -> Option<u64>;

    static CLOCK: AtomicUsize = AtomicUsize::new(0);

    pub fn install_clock(c: Clock) {
        CLOCK.store(c as usize, Ordering::SeqCst);
    }

    #[inline]
    pub fn clock(sleep_ns: u64) -> Option<u64> {
        let p = CLOCK.load(Ordering::Relaxed);
        if p != 0 {
            let c: Clock = unsafe { rcore::mem::transmute::<usize, Clock>(p) };
            return c(sleep_ns);
        }
        None
    }

    /// Task management for threads the crate under test starts itself (`std::thread::spawn`,
    /// scoped threads): `ctl(op, arg)`.
    ///   TASK_IS       -> 1 if the calling thread is a simulated task
    ///   TASK_SPAWN    -> token (> 0) of a new child task of the calling task, 0 if the caller is not a task
    ///   TASK_ENTER    -> (child thread) binds the thread to task `arg` and waits for the baton
    ///   TASK_EXIT     -> (child thread) the task `arg` has ended
    ///   TASK_DONE     -> 1 if task `arg` has ended
    ///   TASK_RAND     -> a seeded choice in 0..arg (0 for a non-task thread)
    pub type Ctl = fn(u32, u64) -> u64;
    pub const TASK_IS: u32 = 0;
    pub const TASK_SPAWN: u32 = 1;
    pub const TASK_ENTER: u32 = 2;
    pub const TASK_EXIT: u32 = 3;
    pub const TASK_DONE: u32 = 4;
    pub const TASK_RAND: u32 = 5;
    ///   TASK_KEY      -> a value fixed for the whole episode (0 for a non-task thread); used to
    ///                    derive per-episode choices that must not consume the scheduler's PRNG
    pub const TASK_KEY: u32 = 6;

    static CTL: AtomicUsize = AtomicUsize::new(0);

    pub fn install_ctl(c: Ctl) {
        CTL.store(c as usize, Ordering::SeqCst);
    }

    #[inline]
    pub fn ctl(op: u32, arg: u64) -> u64 {
        let p = CTL.load(Ordering::Relaxed);
        if p != 0 {
            let c: Ctl = unsafe { rcore::mem::transmute::<usize, Ctl>(p) };
            return c(op, arg);
        }
        0
    }

    #[inline]
    pub fn is_task() -> bool {
        ctl(TASK_IS, 0) == 1
    }

    /// Returns true if the simulator descheduled the caller (so retrying makes sense),
    /// false if the caller should fall back to really blocking.
    #[inline]
    pub fn blocked(site: &'static str) -> bool {
        let p = HOOK.load(Ordering::Relaxed);
        if p != 0 {
            let h: Hook = unsafe { rcore::mem::transmute::<usize, Hook>(p) };
            return h(site, true);
        }
        false
    }
}

pub mod sync {
    pub use rcore::sync::*;

    pub mod atomic {
        pub use rcore::sync::atomic::{compiler_fence, fence, Ordering};
        use rcore::sync::atomic as real;

        use crate::__fqsim::point;

        macro_rules! atomic_common {
            ($name:ident, $real:ident, $t:ty) => {
                #[repr(transparent)]
                pub struct $name(real::$real);

                impl $name {
                    #[inline]
                    pub const fn new(v: $t) -> Self {
                        $name(real::$real::new(v))
                    }
                    #[inline]
                    pub fn get_mut(&mut self) -> &mut $t {
                        self.0.get_mut()
                    }
                    #[inline]
                    pub fn into_inner(self) -> $t {
                        self.0.into_inner()
                    }
                    #[inline]
                    pub const fn as_ptr(&self) -> *mut $t {
                        self.0.as_ptr()
                    }
                    #[inline]
                    pub fn load(&self, order: Ordering) -> $t {
                        point("sync:atomic_load");
                        self.0.load(order)
                    }
                    #[inline]
                    pub fn store(&self, val: $t, order: Ordering) {
                        point("sync:atomic_store");
                        self.0.store(val, order)
                    }
                    #[inline]
                    pub fn swap(&self, val: $t, order: Ordering) -> $t {
                        point("sync:atomic_rmw");
                        self.0.swap(val, order)
                    }
                    #[inline]
                    pub fn compare_exchange(&self, current: $t, new: $t, success: Ordering, failure: Ordering) -> Result<$t, $t> {
                        point("sync:atomic_rmw");
                        self.0.compare_exchange(current, new, success, failure)
                    }
                    #[inline]
                    pub fn compare_exchange_weak(&self, current: $t, new: $t, success: Ordering, failure: Ordering) -> Result<$t, $t> {
                        point("sync:atomic_rmw");
                        // the strong form: a spurious failure would be a source of nondeterminism
                        self.0.compare_exchange(current, new, success, failure)
                    }
                    #[inline]
                    pub fn fetch_and(&self, val: $t, order: Ordering) -> $t {
                        point("sync:atomic_rmw");
                        self.0.fetch_and(val, order)
                    }
                    #[inline]
                    pub fn fetch_nand(&self, val: $t, order: Ordering) -> $t {
                        point("sync:atomic_rmw");
                        self.0.fetch_nand(val, order)
                    }
                    #[inline]
                    pub fn fetch_or(&self, val: $t, order: Ordering) -> $t {
                        point("sync:atomic_rmw");
                        self.0.fetch_or(val, order)
                    }
                    #[inline]
                    pub fn fetch_xor(&self, val: $t, order: Ordering) -> $t {
                        point("sync:atomic_rmw");
                        self.0.fetch_xor(val, order)
                    }
                    #[inline]
                    pub fn fetch_update<F>(&self, set_order: Ordering, fetch_order: Ordering, mut f: F) -> Result<$t, $t>
                    where
                        F: FnMut($t) -> Option<$t>,
                    {
                        // load and CAS are separate scheduling points, as in the real implementation
                        let mut prev = self.load(fetch_order);
                        while let Some(next) = f(prev) {
                            match self.compare_exchange(prev, next, set_order, fetch_order) {
                                x @ Ok(_) => return x,
                                Err(next_prev) => prev = next_prev,
                            }
                        }
                        Err(prev)
                    }
                }

                impl Default for $name {
                    fn default() -> Self {
                        $name(real::$real::default())
                    }
                }
                impl From<$t> for $name {
                    fn from(v: $t) -> Self {
                        $name::new(v)
                    }
                }
                impl rcore::fmt::Debug for $name {
                    fn fmt(&self, f: &mut rcore::fmt::Formatter<'_>) -> rcore::fmt::Result {
                        rcore::fmt::Debug::fmt(&self.0, f)
                    }
                }
                impl rcore::panic::RefUnwindSafe for $name {}
            };
        }

        macro_rules! atomic_int {
            ($name:ident, $real:ident, $t:ty) => {
                atomic_common!($name, $real, $t);
                impl $name {
                    #[inline]
                    pub fn fetch_add(&self, val: $t, order: Ordering) -> $t {
                        point("sync:atomic_rmw");
                        self.0.fetch_add(val, order)
                    }
                    #[inline]
                    pub fn fetch_sub(&self, val: $t, order: Ordering) -> $t {
                        point("sync:atomic_rmw");
                        self.0.fetch_sub(val, order)
                    }
                    #[inline]
                    pub fn fetch_max(&self, val: $t, order: Ordering) -> $t {
                        point("sync:atomic_rmw");
                        self.0.fetch_max(val, order)
                    }
                    #[inline]
                    pub fn fetch_min(&self, val: $t, order: Ordering) -> $t {
                        point("sync:atomic_rmw");
                        self.0.fetch_min(val, order)
                    }
                }
            };
        }

        atomic_int!(AtomicI8, AtomicI8, i8);
        atomic_int!(AtomicI16, AtomicI16, i16);
        atomic_int!(AtomicI32, AtomicI32, i32);
        atomic_int!(AtomicI64, AtomicI64, i64);
        atomic_int!(AtomicIsize, AtomicIsize, isize);
        atomic_int!(AtomicU8, AtomicU8, u8);
        atomic_int!(AtomicU16, AtomicU16, u16);
        atomic_int!(AtomicU32, AtomicU32, u32);
        atomic_int!(AtomicU64, AtomicU64, u64);
        atomic_int!(AtomicUsize, AtomicUsize, usize);
        atomic_common!(AtomicBool, AtomicBool, bool);

        impl AtomicBool {
            #[inline]
            pub fn fetch_not(&self, order: Ordering) -> bool {
                point("sync:atomic_rmw");
                self.0.fetch_xor(true, order)
            }
        }

        #[repr(transparent)]
        pub struct AtomicPtr<T>(real::AtomicPtr<T>);

        impl<T> AtomicPtr<T> {
            #[inline]
            pub const fn new(p: *mut T) -> Self {
                AtomicPtr(real::AtomicPtr::new(p))
            }
            #[inline]
            pub fn get_mut(&mut self) -> &mut *mut T {
                self.0.get_mut()
            }
            #[inline]
            pub fn into_inner(self) -> *mut T {
                self.0.into_inner()
            }
            #[inline]
            pub fn load(&self, order: Ordering) -> *mut T {
                point("sync:atomic_load");
                self.0.load(order)
            }
            #[inline]
            pub fn store(&self, p: *mut T, order: Ordering) {
                point("sync:atomic_store");
                self.0.store(p, order)
            }
            #[inline]
            pub fn swap(&self, p: *mut T, order: Ordering) -> *mut T {
                point("sync:atomic_rmw");
                self.0.swap(p, order)
            }
            #[inline]
            pub fn compare_exchange(&self, current: *mut T, new: *mut T, success: Ordering, failure: Ordering) -> Result<*mut T, *mut T> {
                point("sync:atomic_rmw");
                self.0.compare_exchange(current, new, success, failure)
            }
            #[inline]
            pub fn compare_exchange_weak(&self, current: *mut T, new: *mut T, success: Ordering, failure: Ordering) -> Result<*mut T, *mut T> {
                point("sync:atomic_rmw");
                self.0.compare_exchange(current, new, success, failure)
            }
        }
        impl<T> Default for AtomicPtr<T> {
            fn default() -> Self {
                AtomicPtr::new(rcore::ptr::null_mut())
            }
        }
        impl<T> rcore::fmt::Debug for AtomicPtr<T> {
            fn fmt(&self, f: &mut rcore::fmt::Formatter<'_>) -> rcore::fmt::Result {
                rcore::fmt::Debug::fmt(&self.0, f)
            }
        }
    }
}
