//! Demo for patch 1b (scoped scoring threads publishing into shared atomics).
//!
//! The inputs below are ones where TWO masks share the lowest penalty score
//! (found by instrumenting the unmodified crate). The sequential loop - and
//! patch 1a - pick the lowest mask index among the tied ones. With 1b the
//! winner is whichever of the tied candidates is published first (and, much
//! more rarely, a worse candidate can overwrite a better one between the
//! `load` and the two `store`s), so the chosen mask depends on thread timing.
//!
//! Passes on the unmodified crate, fails with 1b.
//! Run: cargo test --offline --features svg,image --test demo -- --test-threads=1

use fast_qr::{QRBuilder, QRCode, ECL};
use std::sync::{Arc, Barrier};

const THREADS: usize = 8;
const ROUNDS: usize = 25;

/// (input, level, mask index chosen by the unmodified crate, the other tied mask(s))
const TIED: [(&str, ECL, usize, &str); 14] = [
    ("https://example.com/item/1294", ECL::Q, 1, "1,4"),
    ("https://example.com/item/1670", ECL::Q, 1, "1,4"),
    ("https://example.com/item/1854", ECL::Q, 1, "1,4"),
    ("https://example.com/item/3419", ECL::H, 1, "1,4"),
    ("https://example.com/item/1078", ECL::Q, 1, "1,4,5"),
    ("https://example.com/item/5334", ECL::Q, 1, "1,6"),
    ("https://example.com/item/815", ECL::H, 3, "3,4"),
    ("https://example.com/item/1179", ECL::H, 3, "3,4"),
    ("https://example.com/item/2526", ECL::Q, 3, "3,4"),
    ("https://example.com/item/1269", ECL::M, 3, "3,6"),
    ("https://example.com/item/1523", ECL::H, 3, "3,6"),
    ("https://example.com/item/2072", ECL::L, 5, "5,6"),
    ("https://example.com/item/2958", ECL::Q, 5, "5,6"),
    ("https://example.com/item/145", ECL::M, 2, "2,6"),
];

fn build(i: usize) -> QRCode {
    QRBuilder::new(TIED[i].0).ecl(TIED[i].1).build().unwrap()
}

fn same(a: &QRCode, b: &QRCode) -> bool {
    a.size == b.size
        && format!("{:?}{:?}{:?}{:?}", a.version, a.ecl, a.mask, a.mode)
            == format!("{:?}{:?}{:?}{:?}", b.version, b.ecl, b.mask, b.mode)
        && a.data.iter().zip(b.data.iter()).all(|(x, y)| x.0 == y.0)
}

#[test]
fn mask_choice_does_not_depend_on_thread_timing() {
    // single-threaded reference first
    let reference: Vec<QRCode> = (0..TIED.len()).map(build).collect();

    let mut errors = Vec::new();
    for (i, qr) in reference.iter().enumerate() {
        let got = qr.mask.map(|m| m as usize);
        if got != Some(TIED[i].2) {
            errors.push(format!(
                "single-threaded build of {:?}: mask {:?}, the unmodified crate picks {} (tied: {})",
                TIED[i].0, got, TIED[i].2, TIED[i].3
            ));
        }
    }

    let reference = Arc::new(reference);
    let barrier = Arc::new(Barrier::new(THREADS));
    let handles: Vec<_> = (0..THREADS)
        .map(|t| {
            let reference = Arc::clone(&reference);
            let barrier = Arc::clone(&barrier);
            std::thread::spawn(move || {
                let mut errors = Vec::new();
                barrier.wait();
                for round in 0..ROUNDS {
                    for k in 0..TIED.len() {
                        let i = (k + t + round) % TIED.len();
                        let qr = build(i);
                        if !same(&qr, &reference[i]) {
                            errors.push(format!(
                                "thread {t} round {round}: {:?} built with mask {:?}, reference has {:?} (tied: {})",
                                TIED[i].0, qr.mask, reference[i].mask, TIED[i].3
                            ));
                        }
                    }
                }
                errors
            })
        })
        .collect();
    for h in handles {
        errors.extend(h.join().expect("builder thread panicked"));
    }

    let total = THREADS * ROUNDS * TIED.len() + TIED.len();
    assert!(
        errors.is_empty(),
        "{} of {} builds differ; first ones:\n{}",
        errors.len(),
        total,
        errors.iter().take(8).cloned().collect::<Vec<_>>().join("\n")
    );
}
