//! Demo for patch 2b (single-flight cache of blank matrices, waiters take the
//! bucket's "last ready" matrix after a wake-up).
//!
//! In 2b versions 2k+1 and 2k+2 share one Condvar and one `last_ready` slot.
//! Wave k: 8 threads are released together, 4 build version 2k+1 and 4 build
//! version 2k+2, both for the first time in this process. Per version one
//! thread computes the blank matrix and the others wait. Whichever version is
//! published first wakes the waiters of BOTH versions; the waiters of the
//! slower version then return the wrong (neighbour's) blank matrix: wrong
//! size, or an index-out-of-bounds panic while placing the data.
//!
//! The builds are compared with single-threaded builds done afterwards (doing
//! them first would fill the cache and leave nothing to race on).
//!
//! Passes on the unmodified crate (and with 2a), fails with 2b.
//! Run: cargo test --offline --features svg,image --test demo -- --test-threads=1

use fast_qr::{QRBuilder, QRCode, Version, ECL};
use std::sync::{Arc, Barrier};

const THREADS: usize = 8;

const VERSIONS: [Version; 40] = [
    Version::V01, Version::V02, Version::V03, Version::V04, Version::V05,
    Version::V06, Version::V07, Version::V08, Version::V09, Version::V10,
    Version::V11, Version::V12, Version::V13, Version::V14, Version::V15,
    Version::V16, Version::V17, Version::V18, Version::V19, Version::V20,
    Version::V21, Version::V22, Version::V23, Version::V24, Version::V25,
    Version::V26, Version::V27, Version::V28, Version::V29, Version::V30,
    Version::V31, Version::V32, Version::V33, Version::V34, Version::V35,
    Version::V36, Version::V37, Version::V38, Version::V39, Version::V40,
];

fn build(v: usize) -> QRCode {
    QRBuilder::new(format!("demo {v}"))
        .ecl(ECL::M)
        .version(VERSIONS[v])
        .build()
        .unwrap()
}

fn describe(v: usize, got: &QRCode, want: &QRCode) -> Option<String> {
    let gf = format!("{:?} {:?} {:?} {:?}", got.version, got.ecl, got.mask, got.mode);
    let wf = format!("{:?} {:?} {:?} {:?}", want.version, want.ecl, want.mask, want.mode);
    if got.size != want.size {
        Some(format!("V{:02}: size {} instead of {}", v + 1, got.size, want.size))
    } else if gf != wf {
        Some(format!("V{:02}: fields [{gf}] instead of [{wf}]", v + 1))
    } else {
        let n = got.data.iter().zip(want.data.iter()).filter(|(a, b)| a.0 != b.0).count();
        (n != 0).then(|| format!("V{:02}: {n} modules differ", v + 1))
    }
}

#[test]
fn first_builds_of_neighbouring_versions_at_the_same_time() {
    // index-out-of-bounds panics in the builder threads are expected with 2b
    std::panic::set_hook(Box::new(|_| {}));

    let barrier = Arc::new(Barrier::new(THREADS));
    let handles: Vec<_> = (0..THREADS)
        .map(|t| {
            let barrier = Arc::clone(&barrier);
            std::thread::spawn(move || {
                let mut got: Vec<(usize, Result<QRCode, String>)> = Vec::new();
                for wave in 0..VERSIONS.len() / 2 {
                    let v = 2 * wave + t % 2;
                    barrier.wait();
                    let r = std::panic::catch_unwind(|| build(v)).map_err(|p| {
                        p.downcast_ref::<String>()
                            .cloned()
                            .or_else(|| p.downcast_ref::<&str>().map(|s| s.to_string()))
                            .unwrap_or_default()
                    });
                    got.push((v, r));
                }
                got
            })
        })
        .collect();
    let results: Vec<_> = handles.into_iter().map(|h| h.join().unwrap()).collect();
    let _ = std::panic::take_hook();

    // single-threaded reference
    let reference: Vec<QRCode> = (0..VERSIONS.len()).map(build).collect();

    let mut errors = Vec::new();
    for (t, per_thread) in results.iter().enumerate() {
        for (v, r) in per_thread {
            match r {
                Ok(qr) => {
                    if let Some(e) = describe(*v, qr, &reference[*v]) {
                        errors.push(format!("thread {t}: {e}"));
                    }
                }
                Err(msg) => errors.push(format!("thread {t}: V{:02}: build panicked: {msg}", v + 1)),
            }
        }
    }
    assert!(
        errors.is_empty(),
        "{} of {} concurrent first builds are wrong:\n{}",
        errors.len(),
        THREADS * VERSIONS.len() / 2,
        errors.join("\n")
    );
}
