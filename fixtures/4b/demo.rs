//! Demo for patch 3b (SVG paths rendered by a process-wide worker thread;
//! per-thread reply channel, `recv_timeout(50 ms)` + local fallback).
//!
//! The worker serves one request at a time. 16 threads render large QR codes
//! (version 40, three shapes) at the same time, so requests queue up and some
//! callers wait longer than 50 ms: they give up and render locally (still
//! correct). The worker's answer arrives later and stays in that thread's
//! reply channel; the thread's NEXT `to_str` call - for another QR code and
//! other options - receives that stale answer at once and returns the path
//! of the previous QR code. From then on the thread is one answer behind.
//!
//! Passes on the unmodified crate (and with 3a), fails with 3b.
//! Run: cargo test --offline --features svg,image --test demo -- --test-threads=1

use fast_qr::convert::svg::SvgBuilder;
use fast_qr::convert::{Builder, Shape};
use fast_qr::{QRBuilder, QRCode, Version, ECL};
use std::sync::{Arc, Barrier};

const THREADS: usize = 16;
const ROUNDS: usize = 6;

fn codes() -> Vec<QRCode> {
    (0..4)
        .map(|i| {
            QRBuilder::new(format!("https://example.com/some/long/path?item={i}"))
                .ecl([ECL::L, ECL::M, ECL::Q, ECL::H][i])
                .version(Version::V40)
                .build()
                .unwrap()
        })
        .collect()
}

fn render(i: usize, qr: &QRCode) -> String {
    let mut b = SvgBuilder::default();
    match i % 2 {
        0 => b
            .shape(Shape::RoundedSquare)
            .shape_color(Shape::Circle, [200, 0, 0, 255])
            .shape_color(Shape::Diamond, [0, 0, 200, 255]),
        _ => b
            .shape(Shape::Square)
            .shape_color(Shape::Vertical, [0, 120, 0, 255])
            .shape_color(Shape::Horizontal, [90, 0, 90, 255])
            .margin(2),
    };
    b.to_str(qr)
}

#[test]
fn svg_depends_only_on_the_qr_code_and_the_options() {
    let codes = Arc::new(codes());
    // single-threaded reference first
    let reference: Arc<Vec<String>> =
        Arc::new(codes.iter().enumerate().map(|(i, qr)| render(i, qr)).collect());

    let barrier = Arc::new(Barrier::new(THREADS));
    let handles: Vec<_> = (0..THREADS)
        .map(|t| {
            let codes = Arc::clone(&codes);
            let reference = Arc::clone(&reference);
            let barrier = Arc::clone(&barrier);
            std::thread::spawn(move || {
                let mut errors = Vec::new();
                barrier.wait();
                for round in 0..ROUNDS {
                    for k in 0..codes.len() {
                        let i = (k + t) % codes.len();
                        let svg = render(i, &codes[i]);
                        if svg != reference[i] {
                            let whose = reference.iter().position(|r| *r == svg);
                            errors.push(format!(
                                "thread {t} round {round}: svg of code {i} is wrong (it is the svg of code {whose:?})"
                            ));
                        }
                    }
                }
                errors
            })
        })
        .collect();

    let mut errors = Vec::new();
    for h in handles {
        errors.extend(h.join().expect("render thread panicked"));
    }
    assert!(
        errors.is_empty(),
        "{} of {} renderings are wrong; first ones:\n{}",
        errors.len(),
        THREADS * ROUNDS * codes.len(),
        errors.iter().take(8).cloned().collect::<Vec<_>>().join("\n")
    );
}
