//! Stress demo for the CORRECT concurrency patches (1a, 2a, 3a).
//!
//! Uses only the public API of `fast_qr` and std.
//!
//!  1. cold phase: 8 threads, released together by a barrier, build versions
//!     nobody has built yet in this process (four threads per version, two
//!     neighbouring versions at the same time) - this is what exercises a
//!     process-wide cache while it is being filled;
//!  2. the reference results are computed single-threaded and their digest is
//!     compared with `EXPECTED_DIGEST`, which was obtained from the UNMODIFIED
//!     crate (so "identical to the unmodified crate", not just "self-consistent");
//!  3. warm phase: 8 threads x `ROUNDS` rounds build and render all cases
//!     concurrently, each in its own order, and compare every single result
//!     (matrix, all fields, SVG text, terminal text) with the reference;
//!  4. a panicking `Shape::Command` callback is rendered concurrently with
//!     good ones: the panic must reach the caller, and nothing may change afterwards.
//!
//! Run: cargo test --offline --features svg,image --test demo -- --test-threads=1

use fast_qr::convert::svg::SvgBuilder;
use fast_qr::convert::{Builder, Shape};
use fast_qr::{Mask, Mode, Module, QRBuilder, QRCode, Version, ECL};
use std::sync::{Arc, Barrier};

const THREADS: usize = 8;
const ROUNDS: usize = 6;

/// Digest of all reference results, computed with the unmodified crate.
const EXPECTED_DIGEST: u64 = 0xec1f_0289_3fca_1a96;

const VERSIONS: [Version; 40] = [
    Version::V01, Version::V02, Version::V03, Version::V04, Version::V05,
    Version::V06, Version::V07, Version::V08, Version::V09, Version::V10,
    Version::V11, Version::V12, Version::V13, Version::V14, Version::V15,
    Version::V16, Version::V17, Version::V18, Version::V19, Version::V20,
    Version::V21, Version::V22, Version::V23, Version::V24, Version::V25,
    Version::V26, Version::V27, Version::V28, Version::V29, Version::V30,
    Version::V31, Version::V32, Version::V33, Version::V34, Version::V35,
    Version::V36, Version::V37, Version::V38, Version::V39, Version::V40,
];
const ECLS: [ECL; 4] = [ECL::L, ECL::M, ECL::Q, ECL::H];
const MASKS: [Mask; 8] = [
    Mask::Checkerboard, Mask::HorizontalLines, Mask::VerticalLines, Mask::DiagonalLines,
    Mask::LargeCheckerboard, Mask::Fields, Mask::Diamonds, Mask::Meadow,
];

#[derive(Clone)]
struct Case {
    input: Vec<u8>,
    ecl: Option<ECL>,
    version: Option<Version>,
    mask: Option<Mask>,
    mode: Option<Mode>,
    /// which renderer configuration to use (see `render`)
    style: usize,
}

struct Lcg(u64);
impl Lcg {
    fn next(&mut self) -> u64 {
        self.0 = self.0.wrapping_mul(6364136223846793005).wrapping_add(1442695040888963407);
        self.0 >> 33
    }
}

fn text(rng: &mut Lcg, len: usize, alphabet: &[u8]) -> Vec<u8> {
    (0..len).map(|_| alphabet[rng.next() as usize % alphabet.len()]).collect()
}

const BYTES: &[u8] = b"abcdefghijklmnopqrstuvwxyzABCDEFGHIJKLMNOPQRSTUVWXYZ0123456789 :/?&=._-#%";
const ALNUM: &[u8] = b"0123456789ABCDEFGHIJKLMNOPQRSTUVWXYZ $%*+-./:";
const DIGITS: &[u8] = b"0123456789";

fn cases() -> Vec<Case> {
    let mut rng = Lcg(0x5eed_f00d);
    let mut out = Vec::new();
    // every version once, forced, with a short input
    for (i, &v) in VERSIONS.iter().enumerate() {
        out.push(Case {
            input: text(&mut rng, 4 + i % 7, BYTES),
            ecl: Some(ECLS[i % 4]),
            version: Some(v),
            mask: None,
            mode: None,
            style: i % 5,
        });
    }
    // free version, different lengths / alphabets / levels
    for (i, &len) in [1usize, 7, 14, 20, 33, 47, 64, 90, 120, 180, 260, 400, 650, 900]
        .iter()
        .enumerate()
    {
        let alphabet = [BYTES, ALNUM, DIGITS][i % 3];
        out.push(Case {
            input: text(&mut rng, len, alphabet),
            ecl: if i % 5 == 4 { None } else { Some(ECLS[(i + 1) % 4]) },
            version: None,
            mask: None,
            mode: None,
            style: (i + 2) % 5,
        });
    }
    // forced masks and modes
    for (i, &m) in MASKS.iter().enumerate() {
        out.push(Case {
            input: text(&mut rng, 10 + 9 * i, DIGITS),
            ecl: Some(ECLS[i % 4]),
            version: None,
            mask: Some(m),
            mode: if i % 2 == 0 { Some(Mode::Byte) } else { None },
            style: i % 5,
        });
    }
    // inputs for which two masks share the lowest penalty score (the crate
    // must take the lowest mask index among them, whatever the timing)
    for (i, &(input, ecl)) in TIED.iter().enumerate() {
        out.push(Case {
            input: input.as_bytes().to_vec(),
            ecl: Some(ecl),
            version: None,
            mask: None,
            mode: None,
            style: i % 5,
        });
    }
    out
}

const TIED: [(&str, ECL); 8] = [
    ("https://example.com/item/1294", ECL::Q), // masks 1 and 4 tie
    ("https://example.com/item/3419", ECL::H), // 1, 4
    ("https://example.com/item/1078", ECL::Q), // 1, 4, 5
    ("https://example.com/item/5334", ECL::Q), // 1, 6
    ("https://example.com/item/815", ECL::H),  // 3, 4
    ("https://example.com/item/1269", ECL::M), // 3, 6
    ("https://example.com/item/2072", ECL::L), // 5, 6
    ("https://example.com/item/145", ECL::M),  // 2, 6
];

fn build(c: &Case) -> QRCode {
    let mut b = QRBuilder::new(c.input.clone());
    if let Some(e) = c.ecl {
        b.ecl(e);
    }
    if let Some(v) = c.version {
        b.version(v);
    }
    if let Some(m) = c.mask {
        b.mask(m);
    }
    if let Some(m) = c.mode {
        b.mode(m);
    }
    b.build().expect("case must be encodable")
}

fn half_height(y: usize, x: usize, cell: Module) -> String {
    if x % 2 == 0 {
        Shape::Square(y, x, cell)
    } else {
        format!("M{x},{y}h1v.5h-1")
    }
}

fn panicking(y: usize, x: usize, _cell: Module) -> String {
    if (x + y) % 11 == 3 {
        panic!("demo: callback panic");
    }
    format!("M{x},{y}h1v1h-1")
}

fn render(style: usize, qr: &QRCode) -> String {
    let mut b = SvgBuilder::default();
    match style {
        0 => {}
        1 => {
            b.shape(Shape::RoundedSquare).margin(2);
        }
        2 => {
            b.shape(Shape::Circle)
                .shape_color(Shape::Diamond, [200, 10, 10, 255])
                .module_color([0, 0, 90, 255])
                .background_color([250, 250, 240, 255]);
        }
        3 => {
            b.shape(Shape::Command(half_height)).margin(1);
        }
        _ => {
            b.shape(Shape::Vertical)
                .shape_color(Shape::Horizontal, "#00aa00")
                .image(String::from("data:image/png;base64,AAAA"))
                .margin(5);
        }
    }
    b.to_str(qr)
}

/// Everything observable about one result.
#[derive(PartialEq, Eq, Clone)]
struct Snapshot {
    fields: String,
    data: Vec<u8>,
    svg: String,
    term: String,
}

fn snapshot(c: &Case, qr: &QRCode) -> Snapshot {
    let before: Vec<u8> = qr.data.iter().map(|m| m.0).collect();
    let svg = render(c.style, qr);
    let term = qr.to_str();
    let after: Vec<u8> = qr.data.iter().map(|m| m.0).collect();
    assert!(before == after, "rendering modified the QR code");
    Snapshot {
        fields: format!(
            "size={} version={:?} ecl={:?} mask={:?} mode={:?}",
            qr.size, qr.version, qr.ecl, qr.mask, qr.mode
        ),
        data: after,
        svg,
        term,
    }
}

fn fnv(h: &mut u64, bytes: &[u8]) {
    for &b in bytes {
        *h ^= u64::from(b);
        *h = h.wrapping_mul(0x0000_0100_0000_01b3);
    }
    *h ^= 0xff;
    *h = h.wrapping_mul(0x0000_0100_0000_01b3);
}

fn digest(snaps: &[Snapshot]) -> u64 {
    let mut h = 0xcbf2_9ce4_8422_2325u64;
    for s in snaps {
        fnv(&mut h, s.fields.as_bytes());
        fnv(&mut h, &s.data);
        fnv(&mut h, s.svg.as_bytes());
        fnv(&mut h, s.term.as_bytes());
    }
    h
}

fn describe(a: &Snapshot, b: &Snapshot) -> String {
    if a.fields != b.fields {
        format!("fields differ: [{}] vs [{}]", a.fields, b.fields)
    } else if a.data != b.data {
        let n = a.data.iter().zip(&b.data).filter(|(x, y)| x != y).count();
        format!("matrix differs in {n} modules ({})", a.fields)
    } else if a.svg != b.svg {
        format!("svg differs ({})", a.fields)
    } else {
        format!("terminal text differs ({})", a.fields)
    }
}

#[test]
fn concurrent_results_equal_single_threaded_results() {
    let cases = Arc::new(cases());

    // keep the expected callback panics out of the test output
    let default_hook = std::panic::take_hook();
    std::panic::set_hook(Box::new(move |info| {
        let expected = info
            .payload()
            .downcast_ref::<&str>()
            .map_or(false, |s| s.starts_with("demo: callback panic"));
        if !expected {
            default_hook(info);
        }
    }));

    // ---- 1. cold phase -------------------------------------------------
    // Cases 0..40 are "version i forced". In wave w the 8 threads work on the
    // two neighbouring versions 2w and 2w+1, four threads per version, all
    // released together (one computes, the others find it in progress).
    let barrier = Arc::new(Barrier::new(THREADS));
    let cold: Vec<Vec<(usize, Snapshot)>> = {
        let handles: Vec<_> = (0..THREADS)
            .map(|t| {
                let cases = Arc::clone(&cases);
                let barrier = Arc::clone(&barrier);
                std::thread::spawn(move || {
                    let mut got = Vec::new();
                    for wave in 0..20 {
                        let idx = wave * 2 + t % 2;
                        barrier.wait();
                        let qr = build(&cases[idx]);
                        got.push((idx, snapshot(&cases[idx], &qr)));
                    }
                    got
                })
            })
            .collect();
        handles
            .into_iter()
            .map(|h| h.join().expect("a cold-phase thread panicked"))
            .collect()
    };

    // ---- 2. single-threaded reference ------------------------------------
    let reference: Vec<Snapshot> = cases.iter().map(|c| snapshot(c, &build(c))).collect();
    let d = digest(&reference);
    assert!(
        d == EXPECTED_DIGEST,
        "single-threaded results differ from the unmodified crate: digest {d:#018x}, expected {EXPECTED_DIGEST:#018x}"
    );
    for per_thread in &cold {
        for (idx, snap) in per_thread {
            assert!(
                *snap == reference[*idx],
                "cold phase, case {idx}: {}",
                describe(snap, &reference[*idx])
            );
        }
    }
    let reference = Arc::new(reference);

    // ---- 3. warm phase ---------------------------------------------------
    let barrier = Arc::new(Barrier::new(THREADS));
    let handles: Vec<_> = (0..THREADS)
        .map(|t| {
            let cases = Arc::clone(&cases);
            let reference = Arc::clone(&reference);
            let barrier = Arc::clone(&barrier);
            std::thread::spawn(move || -> Result<usize, String> {
                let n = cases.len();
                let mut checked = 0;
                barrier.wait();
                for round in 0..ROUNDS {
                    // a different permutation for every thread and round
                    let step = [1, 3, 5, 7, 9, 11, 13, 17][(t + round) % 8];
                    let start = (t * 7 + round * 13) % n;
                    for k in 0..n {
                        let idx = (start + k * step) % n;
                        let snap = snapshot(&cases[idx], &build(&cases[idx]));
                        if snap != reference[idx] {
                            return Err(format!(
                                "thread {t} round {round} case {idx}: {}",
                                describe(&snap, &reference[idx])
                            ));
                        }
                        checked += 1;

                        // ---- 4. a panicking callback now and then
                        if (k + t) % 16 == 0 {
                            let qr = build(&cases[idx]);
                            let r = std::panic::catch_unwind(std::panic::AssertUnwindSafe(|| {
                                SvgBuilder::default()
                                    .shape(Shape::Command(panicking))
                                    .to_str(&qr)
                            }));
                            if r.is_ok() {
                                return Err(format!("thread {t}: callback panic was swallowed"));
                            }
                            let again = snapshot(&cases[idx], &qr);
                            if again != reference[idx] {
                                return Err(format!(
                                    "thread {t} case {idx} after a callback panic: {}",
                                    describe(&again, &reference[idx])
                                ));
                            }
                        }
                    }
                }
                Ok(checked)
            })
        })
        .collect();

    let mut total = 0;
    for h in handles {
        match h.join().expect("a warm-phase thread panicked") {
            Ok(n) => total += n,
            Err(e) => panic!("{e}"),
        }
    }
    let _ = std::panic::take_hook();
    assert_eq!(total, THREADS * ROUNDS * cases.len());
}
